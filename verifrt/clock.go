package verifrt

import (
	"container/heap"
	"context"
	"time"
)

// Discrete-event clock. Now() advances by 1 µs per call so that two
// consecutive reads differ (libmem's request-age ordering relies on that, as
// it does on a real monotonic clock). Timers fire only when the engine calls
// Advance / RunTimers.

type simTimer struct {
	at      int64
	seq     uint64
	f       func()
	stopped bool
	fired   bool
	idx     int
}

type timerHeap []*simTimer

func (h timerHeap) Len() int { return len(h) }
func (h timerHeap) Less(i, j int) bool {
	if h[i].at != h[j].at {
		return h[i].at < h[j].at
	}
	return h[i].seq < h[j].seq
}
func (h timerHeap) Swap(i, j int) { h[i], h[j] = h[j], h[i]; h[i].idx = i; h[j].idx = j }
func (h *timerHeap) Push(x any)   { t := x.(*simTimer); t.idx = len(*h); *h = append(*h, t) }
func (h *timerHeap) Pop() any {
	old := *h
	n := len(old)
	t := old[n-1]
	*h = old[:n-1]
	return t
}

// Timer is the simulated stand-in for *time.Timer as used by the code under
// test (only Stop is used).
type Timer struct {
	w *World
	t *simTimer
	C <-chan time.Time
}

// Stop prevents the timer from firing; it reports whether it stopped it.
func (t *Timer) Stop() bool {
	if t == nil || t.t == nil {
		return false
	}
	t.w.mu.Lock()
	defer t.w.mu.Unlock()
	if t.t.fired || t.t.stopped {
		return false
	}
	t.t.stopped = true
	return true
}

// Now returns simulated time.
func Now() time.Time {
	w := world()
	w.mu.Lock()
	w.now += 1000
	n := w.now
	w.mu.Unlock()
	return Epoch.Add(time.Duration(n))
}

// Since mirrors time.Since on the simulated clock.
func Since(t time.Time) time.Duration { return Now().Sub(t) }

// NowNanos returns simulated nanoseconds without advancing the clock.
func (w *World) NowNanos() int64 {
	w.mu.Lock()
	defer w.mu.Unlock()
	return w.now
}

// AfterFunc mirrors time.AfterFunc on the simulated clock. f runs on the
// goroutine that advances the clock.
func AfterFunc(d time.Duration, f func()) *Timer {
	w := world()
	w.mu.Lock()
	w.tseq++
	st := &simTimer{at: w.now + int64(d), seq: w.tseq, f: f}
	heap.Push(&w.timers, st)
	w.mu.Unlock()
	return &Timer{w: w, t: st}
}

// After mirrors time.After.
func After(d time.Duration) <-chan time.Time {
	ch := make(chan time.Time, 1)
	AfterFunc(d, func() { ch <- Now() })
	return ch
}

// WithTimeout mirrors context.WithTimeout on the simulated clock.
func WithTimeout(parent context.Context, d time.Duration) (context.Context, context.CancelFunc) {
	ctx, cancel := context.WithCancelCause(parent)
	t := AfterFunc(d, func() { cancel(context.DeadlineExceeded) })
	return &deadlineCtx{Context: ctx}, func() { t.Stop(); cancel(context.Canceled) }
}

type deadlineCtx struct{ context.Context }

func (c *deadlineCtx) Err() error {
	if err := c.Context.Err(); err != nil {
		if cause := context.Cause(c.Context); cause == context.DeadlineExceeded {
			return cause
		}
		return err
	}
	return nil
}

// PendingTimers reports the number of armed timers.
func (w *World) PendingTimers() int {
	w.mu.Lock()
	defer w.mu.Unlock()
	n := 0
	for _, t := range w.timers {
		if !t.stopped && !t.fired {
			n++
		}
	}
	return n
}

// NextTimer returns the delay until the next armed timer, or false.
func (w *World) NextTimer() (time.Duration, bool) {
	w.mu.Lock()
	defer w.mu.Unlock()
	for w.timers.Len() > 0 && (w.timers[0].stopped || w.timers[0].fired) {
		heap.Pop(&w.timers)
	}
	if w.timers.Len() == 0 {
		return 0, false
	}
	d := w.timers[0].at - w.now
	if d < 0 {
		d = 0
	}
	return time.Duration(d), true
}

// Advance moves simulated time forward by d, firing every timer that becomes
// due, in (time, sequence) order, on the calling goroutine. It returns the
// number of timers fired.
func (w *World) Advance(d time.Duration) int {
	w.mu.Lock()
	target := w.now + int64(d)
	w.mu.Unlock()
	fired := 0
	for {
		w.mu.Lock()
		for w.timers.Len() > 0 && (w.timers[0].stopped || w.timers[0].fired) {
			heap.Pop(&w.timers)
		}
		if w.timers.Len() == 0 || w.timers[0].at > target {
			if w.now < target {
				w.now = target
			}
			w.mu.Unlock()
			return fired
		}
		t := heap.Pop(&w.timers).(*simTimer)
		t.fired = true
		if t.at > w.now {
			w.now = t.at
		}
		w.mu.Unlock()
		fired++
		t.f()
	}
}

// SimulatedSeconds returns simulated time covered so far.
func (w *World) SimulatedSeconds() float64 {
	w.mu.Lock()
	defer w.mu.Unlock()
	return float64(w.now) / 1e9
}
