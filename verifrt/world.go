package verifrt

import (
	"fmt"
	"hash/fnv"
	"reflect"
	"sort"
	"strconv"
	"sync"
	"time"
)

// OrderMode selects how instrumented `range` over a map visits its keys.
type OrderMode int

const (
	// OrderCanonical visits keys in sorted order.
	OrderCanonical OrderMode = iota
	// OrderSeeded visits keys in a permutation drawn from the stream
	// order/<site>/<request key>/<nth execution of that site in the request>.
	OrderSeeded
	// OrderReverse visits keys in reverse sorted order (cheap second order
	// used by determinism comparisons).
	OrderReverse
)

// World is the per-run simulation state. Exactly one World is current in a
// process at a time (runs are sequential inside a worker process).
type World struct {
	Seed  uint64
	Order OrderMode
	// OrderSalt is mixed into order streams; C08/C18 re-run one call under
	// several salts.
	OrderSalt uint64

	mu        sync.Mutex
	reqKey    string
	siteCount map[string]uint32
	ptrSeq    map[any]uint64
	nextPtr   uint64

	// clock (simulated, nanoseconds since Epoch)
	now    int64
	timers timerHeap
	tseq   uint64

	// digest of every decision taken, for determinism diffing
	logHash  uint64
	LogLines []string
	KeepLog  bool

	sched *Sched
	fs    *FSWorld

	// statistics
	IterCalls   uint64
	IterShuffle uint64 // iterations over maps with >= 2 keys under OrderSeeded
}

// Epoch is the simulated time origin.
var Epoch = time.Date(2024, 1, 1, 0, 0, 0, 0, time.UTC)

var (
	cur   *World
	curMu sync.Mutex
)

// NewWorld creates a world and makes it current.
func NewWorld(seed uint64, order OrderMode) *World {
	w := &World{
		Seed:      seed,
		Order:     order,
		siteCount: map[string]uint32{},
		ptrSeq:    map[any]uint64{},
		now:       0,
		logHash:   0xcbf29ce484222325,
	}
	curMu.Lock()
	cur = w
	curMu.Unlock()
	return w
}

// Current returns the current world (may be nil: instrumented code then falls
// back to canonical order and a free-running simulated clock of its own).
func Current() *World {
	curMu.Lock()
	defer curMu.Unlock()
	return cur
}

var fallback = &World{siteCount: map[string]uint32{}, ptrSeq: map[any]uint64{}, logHash: 0xcbf29ce484222325}

func world() *World {
	curMu.Lock()
	w := cur
	curMu.Unlock()
	if w == nil {
		return fallback
	}
	return w
}

// SetRequest names the request being processed. Map-order streams are keyed
// by it, so removing another request from a plan (minimisation, differential
// twins) does not disturb the orders this request sees.
func (w *World) SetRequest(key string) {
	w.mu.Lock()
	w.reqKey = key
	w.siteCount = map[string]uint32{}
	w.mu.Unlock()
}

// Request returns the current request key.
func (w *World) Request() string {
	w.mu.Lock()
	defer w.mu.Unlock()
	return w.reqKey
}

// Logf appends to the decision log (hash always, text when KeepLog).
func (w *World) Logf(format string, a ...any) {
	s := fmt.Sprintf(format, a...)
	w.mu.Lock()
	h := fnv.New64a()
	var b [8]byte
	for i := 0; i < 8; i++ {
		b[i] = byte(w.logHash >> (8 * i))
	}
	h.Write(b[:])
	h.Write([]byte(s))
	w.logHash = h.Sum64()
	if w.KeepLog {
		w.LogLines = append(w.LogLines, s)
	}
	w.mu.Unlock()
}

// LogDigest returns the digest of everything logged so far.
func (w *World) LogDigest() uint64 {
	w.mu.Lock()
	defer w.mu.Unlock()
	return w.logHash
}

// ---------------------------------------------------------------------------
// map iteration

// Item is one entry of an instrumented map range.
type Item[K comparable, V any] struct {
	m map[K]V
	k K
}

// Get returns the key, the value at iteration time, and whether the key is
// still present (Go does not visit entries deleted during iteration).
func (it Item[K, V]) Get() (K, V, bool) {
	v, ok := it.m[it.k]
	return it.k, v, ok
}

// Iter snapshots the key set of m and orders it (canonically, then by the
// world's order mode). Entries added during iteration are not visited, which
// the Go specification allows.
func Iter[K comparable, V any](m map[K]V, site string) []Item[K, V] {
	n := len(m)
	if n == 0 {
		return nil
	}
	items := make([]Item[K, V], 0, n)
	for k := range m {
		items = append(items, Item[K, V]{m: m, k: k})
	}
	if n == 1 {
		return items
	}
	w := world()
	sortItems(w, items)
	w.mu.Lock()
	w.IterCalls++
	mode := w.Order
	var nth uint32
	var key string
	if mode == OrderSeeded {
		nth = w.siteCount[site]
		w.siteCount[site] = nth + 1
		key = w.reqKey
		w.IterShuffle++
	}
	seed, salt := w.Seed, w.OrderSalt
	w.mu.Unlock()
	switch mode {
	case OrderSeeded:
		r := NewRand(MixN(Mix(Mix(seed^salt, site), key), uint64(nth)))
		Shuffle(r, items)
	case OrderReverse:
		for i, j := 0, len(items)-1; i < j; i, j = i+1, j-1 {
			items[i], items[j] = items[j], items[i]
		}
	}
	return items
}

// PermuteInts is the hook used by overlaid external helpers that leak map
// order as unsorted slices (IDSet.Members, CPUSet.UnsortedList): s is already
// canonical.
func PermuteInts(s []int, site string) {
	if len(s) < 2 {
		return
	}
	w := world()
	w.mu.Lock()
	mode := w.Order
	var nth uint32
	var key string
	if mode == OrderSeeded {
		nth = w.siteCount[site]
		w.siteCount[site] = nth + 1
		key = w.reqKey
	}
	seed, salt := w.Seed, w.OrderSalt
	w.mu.Unlock()
	switch mode {
	case OrderSeeded:
		r := NewRand(MixN(Mix(Mix(seed^salt, site), key), uint64(nth)))
		Shuffle(r, s)
	case OrderReverse:
		for i, j := 0, len(s)-1; i < j; i, j = i+1, j-1 {
			s[i], s[j] = s[j], s[i]
		}
	}
}

func sortItems[K comparable, V any](w *World, items []Item[K, V]) {
	var zero K
	switch any(zero).(type) {
	case string:
		sort.Slice(items, func(i, j int) bool { return any(items[i].k).(string) < any(items[j].k).(string) })
		return
	case int:
		sort.Slice(items, func(i, j int) bool { return any(items[i].k).(int) < any(items[j].k).(int) })
		return
	}
	keys := make([]sortKey, len(items))
	for i := range items {
		keys[i] = w.sortKeyOf(reflect.ValueOf(&items[i].k).Elem())
	}
	idx := make([]int, len(items))
	for i := range idx {
		idx[i] = i
	}
	sort.SliceStable(idx, func(a, b int) bool { return keys[idx[a]].less(keys[idx[b]]) })
	out := make([]Item[K, V], len(items))
	for i, j := range idx {
		out[i] = items[j]
	}
	copy(items, out)
}

// sortKey is a canonical, address-free ordering key.
type sortKey struct {
	kind int // 0 int, 1 uint, 2 float, 3 string, 4 composite
	i    int64
	u    uint64
	f    float64
	s    string
	sub  []sortKey
}

func (a sortKey) less(b sortKey) bool { return a.cmp(b) < 0 }

func (a sortKey) cmp(b sortKey) int {
	if a.kind != b.kind {
		if a.kind < b.kind {
			return -1
		}
		return 1
	}
	switch a.kind {
	case 0:
		switch {
		case a.i < b.i:
			return -1
		case a.i > b.i:
			return 1
		}
	case 1:
		switch {
		case a.u < b.u:
			return -1
		case a.u > b.u:
			return 1
		}
	case 2:
		switch {
		case a.f < b.f:
			return -1
		case a.f > b.f:
			return 1
		}
	case 3:
		switch {
		case a.s < b.s:
			return -1
		case a.s > b.s:
			return 1
		}
	case 4:
		for i := 0; i < len(a.sub) && i < len(b.sub); i++ {
			if c := a.sub[i].cmp(b.sub[i]); c != 0 {
				return c
			}
		}
		return len(a.sub) - len(b.sub)
	}
	return 0
}

func (w *World) sortKeyOf(v reflect.Value) sortKey {
	switch v.Kind() {
	case reflect.Int, reflect.Int8, reflect.Int16, reflect.Int32, reflect.Int64:
		return sortKey{kind: 0, i: v.Int()}
	case reflect.Uint, reflect.Uint8, reflect.Uint16, reflect.Uint32, reflect.Uint64, reflect.Uintptr:
		return sortKey{kind: 1, u: v.Uint()}
	case reflect.Bool:
		if v.Bool() {
			return sortKey{kind: 1, u: 1}
		}
		return sortKey{kind: 1, u: 0}
	case reflect.Float32, reflect.Float64:
		return sortKey{kind: 2, f: v.Float()}
	case reflect.String:
		return sortKey{kind: 3, s: v.String()}
	case reflect.Struct:
		k := sortKey{kind: 4}
		for i := 0; i < v.NumField(); i++ {
			k.sub = append(k.sub, w.sortKeyOf(v.Field(i)))
		}
		return k
	case reflect.Array:
		k := sortKey{kind: 4}
		for i := 0; i < v.Len(); i++ {
			k.sub = append(k.sub, w.sortKeyOf(v.Index(i)))
		}
		return k
	case reflect.Interface:
		if v.IsNil() {
			return sortKey{kind: 1, u: 0}
		}
		e := v.Elem()
		return sortKey{kind: 4, sub: []sortKey{{kind: 3, s: e.Type().String()}, w.sortKeyOf(e)}}
	case reflect.Ptr, reflect.Chan, reflect.UnsafePointer, reflect.Func, reflect.Map:
		// never by address: the pointee's scalar contents first, then a
		// first-seen sequence number
		if v.IsNil() {
			return sortKey{kind: 1, u: 0}
		}
		if v.Kind() == reflect.Ptr && v.Elem().Kind() == reflect.Struct {
			return sortKey{kind: 4, sub: []sortKey{shallowKey(v.Elem(), 2), w.seqKey(v)}}
		}
		return w.seqKey(v)
	}
	return sortKey{kind: 3, s: v.Type().String() + ":" + strconv.Itoa(int(v.Kind()))}
}

// shallowKey orders a struct by its scalar fields only (no addresses, no
// maps/slices), descending at most depth levels into nested structs.
func shallowKey(v reflect.Value, depth int) sortKey {
	k := sortKey{kind: 4}
	for i := 0; i < v.NumField(); i++ {
		f := v.Field(i)
		switch f.Kind() {
		case reflect.Int, reflect.Int8, reflect.Int16, reflect.Int32, reflect.Int64:
			k.sub = append(k.sub, sortKey{kind: 0, i: f.Int()})
		case reflect.Uint, reflect.Uint8, reflect.Uint16, reflect.Uint32, reflect.Uint64, reflect.Uintptr:
			k.sub = append(k.sub, sortKey{kind: 1, u: f.Uint()})
		case reflect.String:
			k.sub = append(k.sub, sortKey{kind: 3, s: f.String()})
		case reflect.Bool:
			if f.Bool() {
				k.sub = append(k.sub, sortKey{kind: 1, u: 1})
			} else {
				k.sub = append(k.sub, sortKey{kind: 1, u: 0})
			}
		case reflect.Struct:
			if depth > 0 {
				k.sub = append(k.sub, shallowKey(f, depth-1))
			}
		}
	}
	return k
}

func (w *World) seqKey(v reflect.Value) sortKey {
	{
		var key any
		if v.CanInterface() {
			key = v.Interface()
		} else {
			key = v.Pointer()
		}
		w.mu.Lock()
		id, ok := w.ptrSeq[key]
		if !ok {
			w.nextPtr++
			id = w.nextPtr
			w.ptrSeq[key] = id
		}
		w.mu.Unlock()
		return sortKey{kind: 1, u: id}
	}
}
