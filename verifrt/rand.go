// Package verifrt is the simulator runtime imported by instrumented
// nri-plugins code (through the verifgen overlay) and by the engines.
// It depends on the standard library only.
package verifrt

// Rand is a splitmix64 PRNG. One run seed decides everything: independent
// streams are derived by hashing a label into the seed (Mix), so consuming one
// stream never shifts another.
type Rand struct{ s uint64 }

func NewRand(seed uint64) *Rand { return &Rand{s: seed} }

func splitmix(x uint64) uint64 {
	x += 0x9e3779b97f4a7c15
	z := x
	z = (z ^ (z >> 30)) * 0xbf58476d1ce4e5b9
	z = (z ^ (z >> 27)) * 0x94d049bb133111eb
	return z ^ (z >> 31)
}

// Mix derives a new seed from a seed and a label.
func Mix(seed uint64, label string) uint64 {
	h := seed ^ 0xcbf29ce484222325
	for i := 0; i < len(label); i++ {
		h ^= uint64(label[i])
		h *= 0x100000001b3
	}
	return splitmix(h)
}

// MixN derives a new seed from a seed and an integer.
func MixN(seed uint64, n uint64) uint64 {
	return splitmix(seed ^ splitmix(n+0x1234567))
}

func (r *Rand) Uint64() uint64 {
	r.s += 0x9e3779b97f4a7c15
	z := r.s
	z = (z ^ (z >> 30)) * 0xbf58476d1ce4e5b9
	z = (z ^ (z >> 27)) * 0x94d049bb133111eb
	return z ^ (z >> 31)
}

// Intn returns a value in [0,n). n <= 0 yields 0.
func (r *Rand) Intn(n int) int {
	if n <= 1 {
		return 0
	}
	return int(r.Uint64() % uint64(n))
}

// Range returns a value in [lo,hi].
func (r *Rand) Range(lo, hi int) int {
	if hi <= lo {
		return lo
	}
	return lo + r.Intn(hi-lo+1)
}

func (r *Rand) Int63n(n int64) int64 {
	if n <= 1 {
		return 0
	}
	return int64(r.Uint64() % uint64(n))
}

func (r *Rand) Float64() float64 { return float64(r.Uint64()>>11) / (1 << 53) }

// Chance returns true with probability p.
func (r *Rand) Chance(p float64) bool { return r.Float64() < p }

// Perm returns a random permutation of 0..n-1.
func (r *Rand) Perm(n int) []int {
	p := make([]int, n)
	for i := range p {
		p[i] = i
	}
	for i := n - 1; i > 0; i-- {
		j := r.Intn(i + 1)
		p[i], p[j] = p[j], p[i]
	}
	return p
}

// Pick returns a random element of a non-empty slice.
func Pick[T any](r *Rand, s []T) T { return s[r.Intn(len(s))] }

// Shuffle permutes s in place.
func Shuffle[T any](r *Rand, s []T) {
	for i := len(s) - 1; i > 0; i-- {
		j := r.Intn(i + 1)
		s[i], s[j] = s[j], s[i]
	}
}

// Weighted picks an index with probability proportional to w[i].
func (r *Rand) Weighted(w []int) int {
	t := 0
	for _, x := range w {
		t += x
	}
	if t <= 0 {
		return 0
	}
	n := r.Intn(t)
	for i, x := range w {
		if n < x {
			return i
		}
		n -= x
	}
	return len(w) - 1
}
