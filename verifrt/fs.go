package verifrt

import (
	"errors"
	"fmt"
	"os"
	"strings"
	"syscall"
)

// File-system seam. Instrumented code calls verifrt.FS.X instead of os.X.
// The shim forwards to the real os functions (so Lstat, modes and symlinks are
// the kernel's) after consulting the fault plan at every call ("fs-op
// boundary"). Durability model: process kill - every completed operation is
// visible afterwards and nothing is reordered.

// FSOp is one recorded file-system operation.
type FSOp struct {
	N     int    `json:"n"`
	Kind  string `json:"kind"`
	Path  string `json:"path"`
	Len   int    `json:"len,omitempty"`
	Write bool   `json:"write,omitempty"`
	Req   string `json:"req,omitempty"`
}

// FSFault is what happens at fs-op N (1-based, counted over mutating ops only
// when MutatingOnly is set).
type FSFault struct {
	At     int    `json:"at"`
	Action string `json:"action"` // crash-before | crash-after | torn | error | short
	Offset int    `json:"offset,omitempty"`
	Errno  string `json:"errno,omitempty"` // ENOSPC EIO EACCES
}

// CrashSentinel is the panic value of a simulated process kill.
type CrashSentinel struct{ Op FSOp }

func (c CrashSentinel) Error() string {
	return fmt.Sprintf("simulated crash at fs-op %d (%s %s)", c.Op.N, c.Op.Kind, c.Op.Path)
}

// FSWorld is the per-instance file-system state.
type FSWorld struct {
	Root   string // paths are reported relative to this
	Trace  []FSOp
	Faults map[int]FSFault
	n      int
	Dead   bool
	Fired  []string
}

type fsShim struct{}

// FS is the seam instrumented code uses.
var FS fsShim

// NewFS installs a fresh file-system world.
func (w *World) NewFS(root string) *FSWorld {
	f := &FSWorld{Root: root, Faults: map[int]FSFault{}}
	w.mu.Lock()
	w.fs = f
	w.mu.Unlock()
	return f
}

func fsw() *FSWorld {
	w := world()
	w.mu.Lock()
	f := w.fs
	w.mu.Unlock()
	return f
}

func errnoOf(s string) error {
	switch s {
	case "EIO":
		return syscall.EIO
	case "EACCES":
		return syscall.EACCES
	case "EROFS":
		return syscall.EROFS
	default:
		return syscall.ENOSPC
	}
}

// step records a mutating op and returns the fault to apply (nil = proceed).
func (f *FSWorld) step(kind, path string, n int, write bool) (*FSFault, FSOp) {
	if f.Dead {
		panic(CrashSentinel{FSOp{N: f.n, Kind: "after-death:" + kind, Path: path}})
	}
	f.n++
	rel := strings.TrimPrefix(path, f.Root)
	op := FSOp{N: f.n, Kind: kind, Path: rel, Len: n, Write: write, Req: world().Request()}
	f.Trace = append(f.Trace, op)
	if ft, ok := f.Faults[f.n]; ok {
		f.Fired = append(f.Fired, ft.Action)
		if ft.Action == "crash-before" {
			f.Dead = true
			panic(CrashSentinel{op})
		}
		return &ft, op
	}
	return nil, op
}

func (f *FSWorld) crash(op FSOp) {
	f.Dead = true
	panic(CrashSentinel{op})
}

// Ops returns the number of mutating operations seen so far.
func (f *FSWorld) Ops() int { return f.n }

func (fsShim) WriteFile(name string, data []byte, perm os.FileMode) error {
	f := fsw()
	if f == nil {
		return os.WriteFile(name, data, perm)
	}
	ft, op := f.step("writefile", name, len(data), true)
	if ft == nil {
		return os.WriteFile(name, data, perm)
	}
	switch ft.Action {
	case "error":
		return &os.PathError{Op: "open", Path: name, Err: errnoOf(ft.Errno)}
	case "torn", "short":
		k := ft.Offset
		if k > len(data) {
			k = len(data)
		}
		if k < 0 {
			k = 0
		}
		os.WriteFile(name, data[:k], perm)
		if ft.Action == "torn" {
			f.crash(op)
		}
		return &os.PathError{Op: "write", Path: name, Err: errnoOf(ft.Errno)}
	case "crash-after":
		os.WriteFile(name, data, perm)
		f.crash(op)
	}
	return os.WriteFile(name, data, perm)
}

func (fsShim) Rename(oldpath, newpath string) error {
	f := fsw()
	if f == nil {
		return os.Rename(oldpath, newpath)
	}
	ft, op := f.step("rename", oldpath+" -> "+strings.TrimPrefix(newpath, f.Root), 0, true)
	if ft == nil {
		return os.Rename(oldpath, newpath)
	}
	switch ft.Action {
	case "error", "short":
		return &os.LinkError{Op: "rename", Old: oldpath, New: newpath, Err: errnoOf(ft.Errno)}
	case "crash-after", "torn":
		os.Rename(oldpath, newpath)
		f.crash(op)
	}
	return os.Rename(oldpath, newpath)
}

func (fsShim) simple(kind, name string, do func() error) error {
	f := fsw()
	if f == nil {
		return do()
	}
	ft, op := f.step(kind, name, 0, true)
	if ft == nil {
		return do()
	}
	switch ft.Action {
	case "error", "short":
		return &os.PathError{Op: kind, Path: name, Err: errnoOf(ft.Errno)}
	case "crash-after", "torn":
		do()
		f.crash(op)
	}
	return do()
}

func (s fsShim) MkdirAll(path string, perm os.FileMode) error {
	return s.simple("mkdirall", path, func() error { return os.MkdirAll(path, perm) })
}
func (s fsShim) Mkdir(path string, perm os.FileMode) error {
	return s.simple("mkdir", path, func() error { return os.Mkdir(path, perm) })
}
func (s fsShim) RemoveAll(path string) error {
	return s.simple("removeall", path, func() error { return os.RemoveAll(path) })
}
func (s fsShim) Remove(path string) error {
	return s.simple("remove", path, func() error { return os.Remove(path) })
}
func (s fsShim) Truncate(path string, size int64) error {
	return s.simple("truncate", path, func() error { return os.Truncate(path, size) })
}
func (s fsShim) Chmod(path string, mode os.FileMode) error {
	return s.simple("chmod", path, func() error { return os.Chmod(path, mode) })
}
func (s fsShim) Symlink(oldname, newname string) error {
	return s.simple("symlink", newname, func() error { return os.Symlink(oldname, newname) })
}
func (s fsShim) Link(oldname, newname string) error {
	return s.simple("link", newname, func() error { return os.Link(oldname, newname) })
}

// read-side operations are forwarded (a dead instance may not read either)
func (fsShim) ReadFile(name string) ([]byte, error) {
	if f := fsw(); f != nil && f.Dead {
		panic(CrashSentinel{FSOp{N: f.n, Kind: "after-death:readfile", Path: name}})
	}
	return os.ReadFile(name)
}
func (fsShim) Lstat(name string) (os.FileInfo, error) {
	if f := fsw(); f != nil && f.Dead {
		panic(CrashSentinel{FSOp{N: f.n, Kind: "after-death:lstat", Path: name}})
	}
	return os.Lstat(name)
}
func (fsShim) Stat(name string) (os.FileInfo, error) {
	if f := fsw(); f != nil && f.Dead {
		panic(CrashSentinel{FSOp{N: f.n, Kind: "after-death:stat", Path: name}})
	}
	return os.Stat(name)
}

func (fsShim) OpenFile(name string, flag int, perm os.FileMode) (*os.File, error) {
	f := fsw()
	if f == nil {
		return os.OpenFile(name, flag, perm)
	}
	write := flag&(os.O_WRONLY|os.O_RDWR|os.O_APPEND|os.O_CREATE|os.O_TRUNC) != 0
	if !write {
		if f.Dead {
			panic(CrashSentinel{FSOp{N: f.n, Kind: "after-death:open", Path: name}})
		}
		return os.OpenFile(name, flag, perm)
	}
	ft, op := f.step("openfile", name, 0, true)
	if ft == nil {
		return os.OpenFile(name, flag, perm)
	}
	switch ft.Action {
	case "error", "short":
		return nil, &os.PathError{Op: "open", Path: name, Err: errnoOf(ft.Errno)}
	case "crash-after", "torn":
		if fl, err := os.OpenFile(name, flag, perm); err == nil {
			fl.Close()
		}
		f.crash(op)
	}
	return os.OpenFile(name, flag, perm)
}

func (s fsShim) Create(name string) (*os.File, error) {
	return s.OpenFile(name, os.O_RDWR|os.O_CREATE|os.O_TRUNC, 0o666)
}

// FileWrite replaces (*os.File).Write in instrumented packages.
func (fsShim) FileWrite(fl *os.File, data []byte) (int, error) {
	f := fsw()
	if f == nil {
		return fl.Write(data)
	}
	ft, op := f.step("file.write", fl.Name(), len(data), true)
	if ft == nil {
		return fl.Write(data)
	}
	switch ft.Action {
	case "error":
		return 0, &os.PathError{Op: "write", Path: fl.Name(), Err: errnoOf(ft.Errno)}
	case "torn", "short":
		k := ft.Offset
		if k > len(data) {
			k = len(data)
		}
		n, _ := fl.Write(data[:k])
		if ft.Action == "torn" {
			f.crash(op)
		}
		return n, &os.PathError{Op: "write", Path: fl.Name(), Err: errnoOf(ft.Errno)}
	case "crash-after":
		fl.Write(data)
		f.crash(op)
	}
	return fl.Write(data)
}

func (s fsShim) FileWriteString(fl *os.File, str string) (int, error) {
	return s.FileWrite(fl, []byte(str))
}

func (fsShim) fileSimple(kind string, fl *os.File, do func() error) error {
	f := fsw()
	if f == nil {
		return do()
	}
	ft, op := f.step(kind, fl.Name(), 0, true)
	if ft == nil {
		return do()
	}
	switch ft.Action {
	case "error", "short":
		return &os.PathError{Op: kind, Path: fl.Name(), Err: errnoOf(ft.Errno)}
	case "crash-after", "torn":
		do()
		f.crash(op)
	}
	return do()
}

func (s fsShim) FileSync(fl *os.File) error  { return s.fileSimple("file.sync", fl, fl.Sync) }
func (s fsShim) FileClose(fl *os.File) error { return s.fileSimple("file.close", fl, fl.Close) }
func (s fsShim) FileTruncate(fl *os.File, n int64) error {
	return s.fileSimple("file.truncate", fl, func() error { return fl.Truncate(n) })
}

// IsCrash reports whether a recovered panic value is a simulated crash.
func IsCrash(p any) bool {
	_, ok := p.(CrashSentinel)
	if ok {
		return true
	}
	if e, ok := p.(error); ok {
		var c CrashSentinel
		return errors.As(e, &c)
	}
	return false
}
