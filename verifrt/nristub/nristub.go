// Package nristub is the stand-in for the NRI stub (seam N5): stub.New in
// pkg/resmgr is redirected here by verifgen. It keeps the plugin object so
// that the engine can invoke its handlers through the same public interfaces
// the real stub uses, and records UpdateContainers calls.
package nristub

import (
	"context"
	"fmt"

	"github.com/containerd/nri/pkg/api"
	"github.com/containerd/nri/pkg/stub"
)

type Fake struct {
	Plugin  interface{}
	Started bool
	Stopped bool
	// OnUpdate is called for every unsolicited UpdateContainers.
	OnUpdate func([]*api.ContainerUpdate) ([]*api.ContainerUpdate, error)
	Calls    int
}

// Last is the most recently created stub.
var Last *Fake

func New(p interface{}, opts ...stub.Option) (stub.Stub, error) {
	f := &Fake{Plugin: p}
	Last = f
	return f, nil
}

func (f *Fake) Run(ctx context.Context) error   { f.Started = true; return nil }
func (f *Fake) Start(ctx context.Context) error { f.Started = true; return nil }
func (f *Fake) Stop()                           { f.Stopped = true }
func (f *Fake) Wait()                           {}
func (f *Fake) UpdateContainers(u []*api.ContainerUpdate) ([]*api.ContainerUpdate, error) {
	f.Calls++
	if !f.Started {
		return nil, fmt.Errorf("stub: no service/connection")
	}
	if f.OnUpdate != nil {
		return f.OnUpdate(u)
	}
	return nil, nil
}
