package verifrt

import (
	"fmt"
	"sync"
)

// Cooperative scheduler seam. Instrumented code calls Go/Lock/Unlock/RLock/
// RUnlock/Yield instead of the `go` statement and sync methods.
//
// Two modes:
//   - eager (no Sched installed): a spawned task runs to completion at the
//     spawn point and locks are taken for real (always uncontended, since only
//     one goroutine runs). Used by all history properties, where the schedule is
//     not the subject.
//   - explore (a Sched is installed with World.SetSched): exactly one task
//     runs at a time; every Go/Lock/Unlock/Yield is a point where the seeded
//     scheduler may switch tasks. Blocking primitives are loops of a
//     non-blocking attempt plus Yield, so a task parked inside a critical
//     section blocks nobody in the kernel, and deadlock is detected by the
//     scheduler itself (every unfinished task made only failed attempts for
//     several full rounds).

type Locker interface {
	Lock()
	Unlock()
	TryLock() bool
}

type RWLocker interface {
	Locker
	RLock()
	RUnlock()
	TryRLock() bool
}

type task struct {
	id      int
	name    string
	wake    chan struct{}
	done    bool
	started bool
	waiting string // what a blocked task waits for
	spins   int    // consecutive failed attempts
	f       func()
	held    map[any]int // locks currently held (for the mutual-exclusion monitor)
}

// Sched is the explore-mode scheduler of one concurrent phase.
type Sched struct {
	mu       sync.Mutex
	w        *World
	rng      *Rand
	tasks    []*task
	cur      *task
	Choices  []int // recorded: index into the runnable set at every decision
	Forced   []int // replay: choices to force (indices modulo the runnable-set size)
	Steps    int
	MaxSteps int
	// Sticky is the probability of letting the running task continue at a
	// scheduling point it is not blocked at (uniform choice otherwise). It is
	// drawn per run: uniform switching almost never starves a task for long,
	// and some races need exactly that.
	Sticky   float64
	Deadlock string // non-empty: deadlock verdict naming what each task waits for
	aborted  bool
	allDone  chan struct{}
	OnSwitch func(from, to string, site string)
	// Monitor, if set, is called on every Touch (C15 mutual-exclusion monitor).
	Monitor func(task string, kind string, what string, held map[any]int)
	// OnAcquire, if set, is called when a task has taken a lock.
	OnAcquire func(task string, lock any, site string)
}

// NewSched creates an explore-mode scheduler with its own PRNG stream.
func (w *World) NewSched(label string) *Sched {
	s := &Sched{w: w, rng: NewRand(Mix(w.Seed, "sched/"+label)), MaxSteps: 200000, allDone: make(chan struct{})}
	s.Sticky = []float64{0, 0, 0.5, 0.9, 0.97, 0.995}[s.rng.Intn(6)]
	return s
}

// SetSched installs (or removes, with nil) the explore-mode scheduler.
func (w *World) SetSched(s *Sched) {
	w.mu.Lock()
	w.sched = s
	w.mu.Unlock()
}

func curSched() *Sched {
	w := world()
	w.mu.Lock()
	s := w.sched
	w.mu.Unlock()
	return s
}

// Spawn registers a task; it starts running when the scheduler picks it.
func (s *Sched) Spawn(name string, f func()) {
	s.mu.Lock()
	t := &task{id: len(s.tasks), name: name, wake: make(chan struct{}, 1), f: f, held: map[any]int{}}
	s.tasks = append(s.tasks, t)
	s.mu.Unlock()
	go func() {
		<-t.wake
		defer func() {
			s.mu.Lock()
			t.done = true
			s.mu.Unlock()
			s.progress()
			s.switchFrom(t, "exit", true)
		}()
		if !s.isAborted() {
			t.f()
		}
	}()
}

func (s *Sched) isAborted() bool {
	s.mu.Lock()
	defer s.mu.Unlock()
	return s.aborted
}

// Run starts the concurrent phase and returns when every task has finished
// or a deadlock verdict was reached (in which case parked goroutines are left
// behind: the caller must treat the world as dead).
func (s *Sched) Run() {
	s.mu.Lock()
	if len(s.tasks) == 0 {
		s.mu.Unlock()
		return
	}
	s.mu.Unlock()
	s.pickAndWake(nil, "start")
	<-s.allDone
}

// CurrentTask names the running task ("" outside explore mode).
func CurrentTask() string {
	s := curSched()
	if s == nil {
		return ""
	}
	s.mu.Lock()
	defer s.mu.Unlock()
	if s.cur == nil {
		return ""
	}
	return s.cur.name
}

// pickAndWake chooses the next task among the unfinished ones and wakes it.
// Returns the chosen task (nil if none left).
func (s *Sched) pickAndWake(from *task, site string) *task {
	s.mu.Lock()
	var runnable []*task
	for _, t := range s.tasks {
		if !t.done {
			runnable = append(runnable, t)
		}
	}
	if len(runnable) == 0 || s.aborted {
		if !s.closed() {
			close(s.allDone)
		}
		s.mu.Unlock()
		return nil
	}
	s.Steps++
	// deadlock / livelock: everybody only spins
	stuck := true
	for _, t := range runnable {
		if t.spins < 6 {
			stuck = false
			break
		}
	}
	if (stuck && s.w.PendingTimers() == 0) || s.Steps > s.MaxSteps {
		desc := ""
		for _, t := range runnable {
			desc += fmt.Sprintf("%s waits for %s; ", t.name, t.waiting)
		}
		if s.Steps > s.MaxSteps {
			desc = "step budget exhausted: " + desc
		}
		s.Deadlock = desc
		s.aborted = true
		if !s.closed() {
			close(s.allDone)
		}
		s.mu.Unlock()
		return nil
	}
	var idx int
	if n := len(s.Choices); n < len(s.Forced) {
		idx = s.Forced[n] % len(runnable)
	} else {
		idx = s.rng.Intn(len(runnable))
		if from != nil && !from.done && from.spins == 0 && s.Sticky > 0 && s.rng.Float64() < s.Sticky {
			for i, t := range runnable {
				if t == from {
					idx = i
				}
			}
		}
	}
	s.Choices = append(s.Choices, idx)
	next := runnable[idx]
	s.cur = next
	cb := s.OnSwitch
	s.mu.Unlock()
	if cb != nil && from != next {
		fn := ""
		if from != nil {
			fn = from.name
		}
		cb(fn, next.name, site)
	}
	if from != next {
		next.wake <- struct{}{}
	}
	return next
}

func (s *Sched) closed() bool {
	select {
	case <-s.allDone:
		return true
	default:
		return false
	}
}

// switchFrom is a scheduling point of task t.
func (s *Sched) switchFrom(t *task, site string, exiting bool) {
	next := s.pickAndWake(t, site)
	if exiting {
		return
	}
	if next == t {
		return
	}
	// park until chosen again (or forever after an abort)
	<-t.wake
}

func (s *Sched) current() *task {
	s.mu.Lock()
	defer s.mu.Unlock()
	return s.cur
}

// Yield is a scheduling point.
func Yield(site string) {
	s := curSched()
	if s == nil {
		return
	}
	t := s.current()
	if t == nil {
		return
	}
	s.progress()
	s.switchFrom(t, site, false)
}

// progress: some task got somewhere, so whatever the others failed to get so
// far may be available now: their failed attempts no longer count as stuck.
func (s *Sched) progress() {
	s.mu.Lock()
	for _, t := range s.tasks {
		t.spins = 0
	}
	s.mu.Unlock()
}

func yieldBlocked(s *Sched, what string) {
	t := s.current()
	if t == nil {
		return
	}
	s.mu.Lock()
	t.spins++
	t.waiting = what
	s.mu.Unlock()
	s.switchFrom(t, what, false)
}

// DaemonSites lists `go` statements (by site prefix) that start service
// loops which never terminate (the resource manager's event loop, which only
// logs): they run as plain goroutines outside the simulation.
var DaemonSites = []string{"pkg/resmgr/events.go"}

// Go replaces the `go` statement.
func Go(site string, f func()) {
	for _, d := range DaemonSites {
		if len(site) >= len(d) && site[:len(d)] == d {
			go f()
			return
		}
	}
	s := curSched()
	if s == nil {
		// eager: run to completion at the spawn point
		f()
		return
	}
	s.Spawn("go@"+site, f)
	Yield("go " + site)
}

func noteHeld(s *Sched, l any, d int) {
	t := s.current()
	if t == nil {
		return
	}
	s.mu.Lock()
	t.held[l] += d
	if t.held[l] <= 0 {
		delete(t.held, l)
	}
	s.mu.Unlock()
	s.progress()
}

// SequentialWorld is set by engines whose world runs on one goroutine whenever
// no scheduler is installed (handlers are called one after the other, spawned
// goroutines run eagerly at the spawn point): a lock found taken there can
// never be released, which is reported (as a panic of the caller) instead of
// blocking until the per-run watchdog fires.
var SequentialWorld bool

// Lock replaces x.Lock().
func Lock(l Locker, site string) {
	s := curSched()
	if s == nil {
		if SequentialWorld && !l.TryLock() {
			panic("self-deadlock: the lock taken at " + site + " is already held and no other task exists to release it")
		} else if !SequentialWorld {
			l.Lock()
		}
		return
	}
	Yield("before-lock " + site)
	for !l.TryLock() {
		yieldBlocked(s, "lock "+site)
		if s.isAborted() {
			select {} // world is dead; never proceed into the critical section
		}
	}
	noteHeld(s, l, 1)
	if s.OnAcquire != nil {
		if t := s.current(); t != nil {
			s.OnAcquire(t.name, l, site)
		}
	}
}

// Unlock replaces x.Unlock().
func Unlock(l Locker, site string) {
	s := curSched()
	if s == nil {
		l.Unlock()
		return
	}
	l.Unlock()
	noteHeld(s, l, -1)
	Yield("after-unlock " + site)
}

// RLock replaces x.RLock().
func RLock(l RWLocker, site string) {
	s := curSched()
	if s == nil {
		if SequentialWorld && !l.TryRLock() {
			panic("self-deadlock: the lock read-taken at " + site + " is already held and no other task exists to release it")
		} else if !SequentialWorld {
			l.RLock()
		}
		return
	}
	Yield("before-rlock " + site)
	for !l.TryRLock() {
		yieldBlocked(s, "rlock "+site)
		if s.isAborted() {
			select {}
		}
	}
	noteHeld(s, rkey{l}, 1)
}

type rkey struct{ l any }

// RUnlock replaces x.RUnlock().
func RUnlock(l RWLocker, site string) {
	s := curSched()
	if s == nil {
		l.RUnlock()
		return
	}
	l.RUnlock()
	noteHeld(s, rkey{l}, -1)
	Yield("after-runlock " + site)
}

// Touch is the access probe of the C15 mutual-exclusion monitor: verifgen
// puts one at the top of every method of the cache and policy types. Outside
// explore mode it does nothing. A task that holds no lock at all yields at
// every probe, so that unprotected accesses of different tasks interleave.
func Touch(kind, what string) {
	s := curSched()
	if s == nil {
		return
	}
	t := s.current()
	if t == nil {
		return
	}
	s.mu.Lock()
	n := len(t.held)
	var held map[any]int
	if s.Monitor != nil {
		held = make(map[any]int, n)
		for k, v := range t.held {
			held[k] = v
		}
	}
	name := t.name
	mon := s.Monitor
	s.mu.Unlock()
	if mon != nil {
		mon(name, kind, what, held)
	}
	if n == 0 {
		Yield("touch " + what)
	}
}

// Recv replaces a single-value channel receive in instrumented code: in
// explore mode a loop of non-blocking attempts and yields, so that a task
// waiting for a value blocks nobody and the scheduler sees what it waits for.
func Recv[T any](ch <-chan T, site string) T {
	s := curSched()
	if s == nil || s.current() == nil {
		return <-ch
	}
	Yield("before-recv " + site)
	for {
		if ch != nil {
			select {
			case v := <-ch:
				s.progress()
				return v
			default:
			}
		}
		yieldBlocked(s, "recv "+site)
		if s.isAborted() {
			select {}
		}
	}
}

// WaitChan blocks the current task (cooperatively) until ready() reports true.
// It is how channel receives in instrumented code are modelled.
func WaitUntil(what string, ready func() bool) {
	s := curSched()
	if s == nil {
		return
	}
	for !ready() {
		yieldBlocked(s, what)
		if s.isAborted() {
			select {}
		}
	}
	s.progress()
}
