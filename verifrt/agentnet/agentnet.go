// Package agentnet is the Kubernetes API seam of pkg/agent (N7):
// rest.HTTPClientFor is redirected here by verifgen, so every request of the
// agent's real clientsets goes through a RoundTripper the engine owns.
package agentnet

import (
	"fmt"
	"net/http"

	"k8s.io/client-go/rest"
)

// Transport is the simulated API server.
var Transport http.RoundTripper

func HTTPClientFor(cfg *rest.Config) (*http.Client, error) {
	if Transport == nil {
		return nil, fmt.Errorf("agentnet: no simulated API server installed")
	}
	// client-side rate limiting sleeps on the clock between requests; the
	// simulator needs "blocked" to mean "waiting for the server", so it is off
	cfg.QPS = -1
	return &http.Client{Transport: Transport}, nil
}
