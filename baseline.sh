#!/bin/bash
# Runs the pinned baseline suite of /repo (guard off) and checks that every
# test in BASELINE.json's stable_pass list passes. Usage: baseline.sh [repo-dir]
REPO=${1:-/repo}
export GOFLAGS=-mod=mod GOPROXY=off GOSUMDB=off GOTOOLCHAIN=local
OUT=$(mktemp)
trap 'rm -f $OUT' EXIT
for m in . ./pkg/topology; do
  (cd $REPO/$m && go test -mod=mod -json -vet=off -count=1 -timeout 25m ./... 2>/dev/null)
done > $OUT
python3 - "$OUT" <<'PY'
import json,sys
base=json.load(open('/root/.vp/BASELINE.json'))
want=set(base['stable_pass'])
passed=set(); failed=set()
for l in open(sys.argv[1]):
    try: e=json.loads(l)
    except Exception: continue
    if e.get('Test') and e.get('Action') in ('pass','fail'):
        k=e['Package']+'::'+e['Test']
        (passed if e['Action']=='pass' else failed).add(k)
missing=sorted(want-passed)
print(f"baseline: {len(want&passed)}/{len(want)} stable tests pass; {len(failed)} failing tests overall")
for m in missing[:40]: print("  NOT PASSING:", m)
sys.exit(1 if missing else 0)
PY
