// Package machine generates hardware models and renders them as a sysfs tree
// that nri-plugins' real discovery code reads (seam N8: sysfs.SetSysRoot).
package machine

import (
	"fmt"
	"os"
	"path/filepath"
	"sort"
	"strconv"
	"strings"

	"verifh/verifrt"
)

type CPU struct {
	ID       int    `json:"id"`
	Pkg      int    `json:"pkg"`
	Die      int    `json:"die"`
	Node     int    `json:"node"`
	Core     int    `json:"core"`    // core_id, unique within the package
	Cluster  int    `json:"cluster"` // cluster_id (L2 sharing group), unique within the package
	Siblings []int  `json:"siblings"`
	Online   bool   `json:"online"`
	Isolated bool   `json:"isolated"`
	Ecore    bool   `json:"ecore,omitempty"`
	L2       []int  `json:"l2"` // CPUs sharing the L2
	L3       []int  `json:"l3"` // CPUs sharing the L3
	L2ID     int    `json:"l2id"`
	L3ID     int    `json:"l3id"`
	MinFreq  int    `json:"minfreq,omitempty"`
	MaxFreq  int    `json:"maxfreq,omitempty"`
	BaseFreq int    `json:"basefreq,omitempty"`
	EPP      string `json:"epp,omitempty"`
}

type Node struct {
	ID       int    `json:"id"`
	CPUs     []int  `json:"cpus"`
	MemKB    uint64 `json:"memkb"`
	FreeKB   uint64 `json:"freekb"`
	Type     string `json:"type"` // dram pmem hbm
	Normal   bool   `json:"normal"`
	Pkg      int    `json:"pkg"`
	Die      int    `json:"die"`
	Distance []int  `json:"distance"`
}

type Machine struct {
	Name       string `json:"name"`
	CPUs       []CPU  `json:"cpus"`
	Nodes      []Node `json:"nodes"`
	HasDieID   bool   `json:"has_die_id"`
	HasCluster bool   `json:"has_cluster_id"`
	HasCache   bool   `json:"has_cache"`
	HasCpufreq bool   `json:"has_cpufreq"`
	HasEPP     bool   `json:"has_epp"`
	Hybrid     bool   `json:"hybrid"`
	Shape      string `json:"shape"`
}

// Options bound the generated family.
type Options struct {
	MaxCPUs      int
	AllowOffline bool
	AllowSpecial bool // CPU-less PMEM/HBM nodes
	AllowNoMem   bool // memory-less CPU nodes
	Symmetric    bool // distance matrix symmetric (topology-aware refuses asymmetric ones)
}

func ints(a []int) string {
	b := append([]int(nil), a...)
	sort.Ints(b)
	return ListString(b)
}

// ListString renders a sorted int slice in kernel cpulist format.
func ListString(a []int) string {
	if len(a) == 0 {
		return ""
	}
	var parts []string
	s, p := a[0], a[0]
	flush := func() {
		if s == p {
			parts = append(parts, strconv.Itoa(s))
		} else {
			parts = append(parts, fmt.Sprintf("%d-%d", s, p))
		}
	}
	for _, x := range a[1:] {
		if x == p+1 {
			p = x
			continue
		}
		flush()
		s, p = x, x
	}
	flush()
	return strings.Join(parts, ",")
}

// Generate draws a machine from the PRNG.
func Generate(r *verifrt.Rand, o Options) *Machine {
	if o.MaxCPUs == 0 {
		o.MaxCPUs = 64
	}
	m := &Machine{}
	var pk, dies, npd, cores, threads int
	for {
		pk = r.Weighted([]int{0, 30, 40, 5, 25}) // 1,2,(3),4 packages
		if pk == 0 {
			pk = 1
		}
		dies = 1 + r.Weighted([]int{70, 30})
		npd = 1 + r.Weighted([]int{60, 40})
		cores = r.Range(1, 8)
		threads = 1 + r.Weighted([]int{40, 60})
		if pk*dies*npd*cores*threads <= o.MaxCPUs {
			break
		}
	}
	m.HasDieID = r.Chance(0.8) || dies > 1
	m.HasCluster = r.Chance(0.5)
	m.HasCache = r.Chance(0.85)
	m.HasCpufreq = r.Chance(0.6)
	m.HasEPP = m.HasCpufreq && r.Chance(0.5)
	m.Hybrid = r.Chance(0.15) && cores >= 2
	interleaved := r.Chance(0.5) // Linux-style: cpu i and i+N are siblings
	total := pk * dies * npd * cores * threads
	ncores := total / threads
	m.CPUs = make([]CPU, total)
	nodeID := 0
	coreIdx := 0
	type nodeKey struct{ p, d, n int }
	nodeOf := map[nodeKey]int{}
	for p := 0; p < pk; p++ {
		coreInPkg := 0
		for d := 0; d < dies; d++ {
			for n := 0; n < npd; n++ {
				nodeOf[nodeKey{p, d, n}] = nodeID
				m.Nodes = append(m.Nodes, Node{ID: nodeID, Type: "dram", Normal: true, Pkg: p, Die: d})
				for c := 0; c < cores; c++ {
					ecore := m.Hybrid && c >= (cores+1)/2
					nt := threads
					if ecore {
						nt = 1
					}
					var ids []int
					for t := 0; t < threads; t++ {
						id := coreIdx*threads + t
						if interleaved {
							id = coreIdx + t*ncores
						}
						ids = append(ids, id)
					}
					for t, id := range ids {
						cpu := &m.CPUs[id]
						*cpu = CPU{ID: id, Pkg: p, Die: d, Node: nodeID, Core: coreInPkg, Online: true, Ecore: ecore}
						if t >= nt {
							// an E-core has a single thread: the other id stays offline/absent
							cpu.Online = false
						}
						cpu.Siblings = append([]int(nil), ids[:nt]...)
					}
					coreIdx++
					coreInPkg++
				}
				nodeID++
			}
		}
	}
	// drop CPU slots that are absent (the second thread of single-threaded
	// E-cores) and renumber the remaining CPUs consecutively
	{
		remap := map[int]int{}
		var kept []CPU
		for _, c := range m.CPUs {
			if c.Online {
				remap[c.ID] = len(kept)
				kept = append(kept, c)
			}
		}
		for i := range kept {
			kept[i].ID = i
			var sib []int
			for _, s := range kept[i].Siblings {
				sib = append(sib, remap[s])
			}
			kept[i].Siblings = sib
		}
		m.CPUs = kept
	}
	// caches and clusters
	l2grp := 1
	if m.Hybrid {
		l2grp = 2
	} else if r.Chance(0.2) && cores%2 == 0 {
		l2grp = 2
	}
	l3perDie := r.Chance(0.6)
	type ck struct{ p, d, g int }
	l2ids := map[ck]int{}
	l3ids := map[ck]int{}
	for i := range m.CPUs {
		c := &m.CPUs[i]
		k2 := ck{c.Pkg, c.Die*1000 + c.Node, c.Core / l2grp}
		if !c.Ecore && !(l2grp == 2 && !m.Hybrid) {
			k2 = ck{c.Pkg, c.Die*1000 + c.Node, 100000 + c.Core}
		}
		if _, ok := l2ids[k2]; !ok {
			l2ids[k2] = len(l2ids)
		}
		c.L2ID = l2ids[k2]
		k3 := ck{c.Pkg, 0, 0}
		if l3perDie {
			k3 = ck{c.Pkg, c.Die, 0}
		}
		if _, ok := l3ids[k3]; !ok {
			l3ids[k3] = len(l3ids)
		}
		c.L3ID = l3ids[k3]
	}
	// cluster ids: L2 group index within the package
	clusterOf := map[[2]int]int{}
	perPkg := map[int]int{}
	for i := range m.CPUs {
		c := &m.CPUs[i]
		k := [2]int{c.Pkg, c.L2ID}
		if _, ok := clusterOf[k]; !ok {
			clusterOf[k] = perPkg[c.Pkg]
			perPkg[c.Pkg]++
		}
		c.Cluster = clusterOf[k]
	}
	// offline CPUs: whole cores, never the first core
	if o.AllowOffline && r.Chance(0.2) {
		for k := r.Range(1, 2); k > 0; k-- {
			victim := m.CPUs[r.Intn(len(m.CPUs))]
			if victim.Pkg == 0 && victim.Core == 0 {
				continue
			}
			for _, s := range victim.Siblings {
				m.CPUs[s].Online = false
			}
		}
	}
	for i := range m.CPUs {
		c := &m.CPUs[i]
		c.L2, c.L3 = nil, nil
		for j := range m.CPUs {
			if !m.CPUs[j].Online {
				continue
			}
			if m.CPUs[j].L2ID == c.L2ID {
				c.L2 = append(c.L2, j)
			}
			if m.CPUs[j].L3ID == c.L3ID {
				c.L3 = append(c.L3, j)
			}
		}
		// siblings only list online threads
		var sib []int
		for _, s := range c.Siblings {
			if m.CPUs[s].Online {
				sib = append(sib, s)
			}
		}
		c.Siblings = sib
	}
	// isolated CPUs: whole cores, not core 0 of package 0
	if r.Chance(0.35) {
		n := r.Range(1, 3)
		for k := 0; k < n; k++ {
			v := m.CPUs[r.Intn(len(m.CPUs))]
			if !v.Online || (v.Pkg == 0 && v.Core == 0) {
				continue
			}
			for _, s := range v.Siblings {
				m.CPUs[s].Isolated = true
			}
		}
	}
	// frequencies
	for i := range m.CPUs {
		c := &m.CPUs[i]
		c.MinFreq, c.MaxFreq, c.BaseFreq = 800000, 3600000, 2400000
		if c.Ecore {
			c.MaxFreq, c.BaseFreq = 2800000, 1800000
		} else if r.Chance(0.2) {
			c.MaxFreq = 4200000 // favoured core
		}
		c.EPP = verifrt.Pick(r, []string{"performance", "balance_performance", "default", "balance_power", "power"})
	}
	for i := range m.CPUs {
		// whole core shares frequency/EPP settings
		c := &m.CPUs[i]
		if len(c.Siblings) > 0 && c.Siblings[0] != c.ID {
			f := m.CPUs[c.Siblings[0]]
			c.MaxFreq, c.BaseFreq, c.EPP = f.MaxFreq, f.BaseFreq, f.EPP
		}
	}
	// node CPU lists and memory
	var dramTotal uint64
	for i := range m.Nodes {
		n := &m.Nodes[i]
		for _, c := range m.CPUs {
			if c.Node == n.ID && c.Online {
				n.CPUs = append(n.CPUs, c.ID)
			}
		}
		n.MemKB = uint64(r.Range(2, 64)) << 20 // 2..64 GiB in kB
		if r.Chance(0.15) {
			n.MemKB = uint64(r.Range(256, 2048)) << 10
		}
		dramTotal += n.MemKB
	}
	if o.AllowNoMem && len(m.Nodes) > 1 && r.Chance(0.15) {
		v := 1 + r.Intn(len(m.Nodes)-1)
		dramTotal -= m.Nodes[v].MemKB
		m.Nodes[v].MemKB = 0
		m.Nodes[v].Normal = false
	}
	ndram := 0
	for _, n := range m.Nodes {
		if n.MemKB > 0 {
			ndram++
		}
	}
	dramAvg := dramTotal / uint64(ndram)
	// CPU-less special nodes
	if o.AllowSpecial && r.Chance(0.35) {
		kind := verifrt.Pick(r, []string{"pmem", "hbm", "both"})
		for p := 0; p < pk; p++ {
			if r.Chance(0.15) {
				continue // asymmetric: this package has none
			}
			if kind == "pmem" || kind == "both" {
				m.Nodes = append(m.Nodes, Node{ID: len(m.Nodes), Type: "pmem", Normal: r.Chance(0.5), Pkg: p, Die: -1, MemKB: dramAvg * uint64(r.Range(2, 6))})
			}
			if kind == "hbm" || kind == "both" {
				hb := dramAvg / uint64(r.Range(2, 8))
				if hb == 0 {
					hb = 1
				}
				m.Nodes = append(m.Nodes, Node{ID: len(m.Nodes), Type: "hbm", Normal: true, Pkg: p, Die: -1, MemKB: hb})
			}
		}
	}
	// movable-only DRAM node (never node 0)
	if len(m.Nodes) > 1 && r.Chance(0.1) {
		v := 1 + r.Intn(len(m.Nodes)-1)
		if m.Nodes[v].Type == "dram" && m.Nodes[v].MemKB > 0 {
			m.Nodes[v].Normal = false
		}
	}
	for i := range m.Nodes {
		n := &m.Nodes[i]
		if n.MemKB > 0 {
			n.FreeKB = n.MemKB / uint64(r.Range(2, 10))
		}
	}
	// distances
	shape := verifrt.Pick(r, []string{"flat", "line", "ring", "flat"})
	m.Shape = shape
	pkgDist := func(a, b int) int {
		if a == b {
			return 0
		}
		d := a - b
		if d < 0 {
			d = -d
		}
		switch shape {
		case "line":
			return d
		case "ring":
			if pk-d < d {
				return pk - d
			}
			return d
		}
		return 1
	}
	nn := len(m.Nodes)
	for i := range m.Nodes {
		m.Nodes[i].Distance = make([]int, nn)
	}
	for i := 0; i < nn; i++ {
		for j := i; j < nn; j++ {
			a, b := m.Nodes[i], m.Nodes[j]
			var d int
			switch {
			case i == j:
				d = 10
			case a.Pkg == b.Pkg && a.Type == "dram" && b.Type == "dram":
				if a.Die == b.Die {
					d = 11
				} else {
					d = 14
				}
			case a.Pkg == b.Pkg:
				d = 17
				if a.Type != "dram" && b.Type != "dram" {
					d = 19
				}
			default:
				d = 20 + 6*pkgDist(a.Pkg, b.Pkg)
				if a.Type != "dram" || b.Type != "dram" {
					d += 8
				}
			}
			m.Nodes[i].Distance[j] = d
			m.Nodes[j].Distance[i] = d
		}
	}
	if !o.Symmetric && nn > 1 && r.Chance(0.1) {
		i, j := r.Intn(nn), r.Intn(nn)
		if i != j {
			m.Nodes[i].Distance[j] += 3
		}
	}
	m.Name = fmt.Sprintf("%dp%dd%dn%dc%dt", pk, dies, npd, cores, threads)
	return m
}

// Online returns the sorted ids of online CPUs.
func (m *Machine) Online() []int {
	var a []int
	for _, c := range m.CPUs {
		if c.Online {
			a = append(a, c.ID)
		}
	}
	return a
}

// Present returns the ids of CPUs that have a sysfs directory.
func (m *Machine) Present() []int {
	var a []int
	for _, c := range m.CPUs {
		a = append(a, c.ID)
	}
	return a
}

func (m *Machine) IsolatedCPUs() []int {
	var a []int
	for _, c := range m.CPUs {
		if c.Isolated && c.Online {
			a = append(a, c.ID)
		}
	}
	return a
}

func write(path, content string) error {
	if err := os.MkdirAll(filepath.Dir(path), 0o755); err != nil {
		return err
	}
	return os.WriteFile(path, []byte(content+"\n"), 0o644)
}

// Render writes the machine as <root>/sys/... Optional files are omitted
// according to the Has* flags; mandatory ones are always written.
func (m *Machine) Render(root string) error {
	sys := filepath.Join(root, "sys")
	cpuBase := filepath.Join(sys, "devices/system/cpu")
	nodeBase := filepath.Join(sys, "devices/system/node")
	var firstErr error
	w := func(path, content string) {
		if err := write(path, content); err != nil && firstErr == nil {
			firstErr = err
		}
	}
	w(filepath.Join(cpuBase, "possible"), ints(m.Present()))
	w(filepath.Join(cpuBase, "present"), ints(m.Present()))
	w(filepath.Join(cpuBase, "online"), ints(m.Online()))
	w(filepath.Join(cpuBase, "isolated"), ints(m.IsolatedCPUs()))
	if m.Hybrid {
		var pc, ec []int
		for _, c := range m.CPUs {
			if !c.Online {
				continue
			}
			if c.Ecore {
				ec = append(ec, c.ID)
			} else {
				pc = append(pc, c.ID)
			}
		}
		w(filepath.Join(sys, "devices/cpu_core/cpus"), ints(pc))
		w(filepath.Join(sys, "devices/cpu_atom/cpus"), ints(ec))
	}
	for _, c := range m.CPUs {
		dir := filepath.Join(cpuBase, fmt.Sprintf("cpu%d", c.ID))
		if err := os.MkdirAll(filepath.Join(dir, fmt.Sprintf("node%d", c.Node)), 0o755); err != nil && firstErr == nil {
			firstErr = err
		}
		on := "1"
		if !c.Online {
			on = "0"
		}
		w(filepath.Join(dir, "online"), on)
		if !c.Online {
			continue
		}
		t := filepath.Join(dir, "topology")
		w(filepath.Join(t, "physical_package_id"), strconv.Itoa(c.Pkg))
		if m.HasDieID {
			w(filepath.Join(t, "die_id"), strconv.Itoa(c.Die))
		}
		if m.HasCluster {
			w(filepath.Join(t, "cluster_id"), strconv.Itoa(c.Cluster))
		}
		w(filepath.Join(t, "core_id"), strconv.Itoa(c.Core))
		if m.HasDieID || m.HasCluster {
			w(filepath.Join(t, "core_cpus_list"), ints(c.Siblings))
		} else {
			// a kernel old enough to know neither die_id nor cluster_id has
			// no core_cpus_list either, only the legacy names (and
			// core_siblings_list means the CPUs of the package there)
			var pkg []int
			for _, o := range m.CPUs {
				if o.Online && o.Pkg == c.Pkg {
					pkg = append(pkg, o.ID)
				}
			}
			w(filepath.Join(t, "core_siblings_list"), ints(pkg))
		}
		w(filepath.Join(t, "thread_siblings_list"), ints(c.Siblings))
		if m.HasCpufreq {
			f := filepath.Join(dir, "cpufreq")
			w(filepath.Join(f, "base_frequency"), strconv.Itoa(c.BaseFreq))
			w(filepath.Join(f, "cpuinfo_min_freq"), strconv.Itoa(c.MinFreq))
			w(filepath.Join(f, "cpuinfo_max_freq"), strconv.Itoa(c.MaxFreq))
			w(filepath.Join(f, "scaling_min_freq"), strconv.Itoa(c.MinFreq))
			w(filepath.Join(f, "scaling_max_freq"), strconv.Itoa(c.MaxFreq))
			if m.HasEPP {
				w(filepath.Join(f, "energy_performance_preference"), c.EPP)
			}
		}
		if m.HasCache {
			type ci struct {
				level      int
				kind, size string
				id         int
				cpus       []int
			}
			for idx, x := range []ci{
				{1, "Data", "48K", c.Pkg*1000 + c.Core, c.Siblings},
				{1, "Instruction", "32K", c.Pkg*1000 + c.Core, c.Siblings},
				{2, "Unified", "2048K", c.L2ID, c.L2},
				{3, "Unified", "30720K", c.L3ID, c.L3},
			} {
				d := filepath.Join(dir, fmt.Sprintf("cache/index%d", idx))
				w(filepath.Join(d, "id"), strconv.Itoa(x.id))
				w(filepath.Join(d, "level"), strconv.Itoa(x.level))
				w(filepath.Join(d, "type"), x.kind)
				w(filepath.Join(d, "size"), x.size)
				w(filepath.Join(d, "shared_cpu_list"), ints(x.cpus))
			}
		}
	}
	var online, hasMem, hasNormal, hasCPU []int
	for _, n := range m.Nodes {
		online = append(online, n.ID)
		if n.MemKB > 0 {
			hasMem = append(hasMem, n.ID)
			if n.Normal {
				hasNormal = append(hasNormal, n.ID)
			}
		}
		if len(n.CPUs) > 0 {
			hasCPU = append(hasCPU, n.ID)
		}
		d := filepath.Join(nodeBase, fmt.Sprintf("node%d", n.ID))
		w(filepath.Join(d, "cpulist"), ints(n.CPUs))
		ds := make([]string, len(n.Distance))
		for i, x := range n.Distance {
			ds[i] = strconv.Itoa(x)
		}
		w(filepath.Join(d, "distance"), strings.Join(ds, " "))
		w(filepath.Join(d, "meminfo"), fmt.Sprintf("Node %d MemTotal:       %d kB\nNode %d MemFree:        %d kB\nNode %d MemUsed:        %d kB", n.ID, n.MemKB, n.ID, n.FreeKB, n.ID, n.MemKB-n.FreeKB))
	}
	w(filepath.Join(nodeBase, "online"), ints(online))
	w(filepath.Join(nodeBase, "possible"), ints(online))
	w(filepath.Join(nodeBase, "has_cpu"), ints(hasCPU))
	w(filepath.Join(nodeBase, "has_memory"), ints(hasMem))
	w(filepath.Join(nodeBase, "has_normal_memory"), ints(hasNormal))
	return firstErr
}
