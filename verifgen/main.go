// verifgen generates an instrumented copy of nri-plugins source files from
// /repo's current working tree and an overlay.json for `go build -overlay`.
// /repo itself is never written.
//
// Rewrites:
//  1. every `range` over a map-typed expression -> verifrt.Iter (seeded order)
//  2. symbol substitution (package-qualified identifiers -> verifrt seams)
//  3. synchronisation points (Lock/Unlock/RLock/RUnlock, go statements, channel
//     operations) in selected packages -> verifrt scheduler calls
//  4. extra files (accessors, drivers) copied from /verif/overlay into packages
//
// Any construct it cannot handle is a hard error (exit 2).
package main

import (
	"bytes"
	"encoding/json"
	"flag"
	"fmt"
	"go/ast"
	"go/format"
	"go/parser"
	"go/token"
	"go/types"
	"os"
	"path/filepath"
	"sort"
	"strconv"
	"strings"

	"golang.org/x/tools/go/ast/astutil"
	"golang.org/x/tools/go/packages"
)

const rtPath = "verifh/verifrt"
const rtName = "verifrt_"

// extraImports are further harness packages substitution targets may name.
var extraImports = map[string]string{"nristub_": "verifh/verifrt/nristub", "agentnet_": "verifh/verifrt/agentnet"}

type substRule struct {
	Pkg  string // package being rewritten (import path suffix under the module), "" = any
	From string // "<import path>.<Name>", or "(<recv type>).<Method>" for a method call
	To   string // expression using verifrt_ as package name; for methods a function taking the receiver first
}

// transplant presents a (rewritten) source file of a `package main` plugin as
// a file of a harness package under another package name, so that the
// plugin's unexported handlers can be driven in-package.
type transplant struct {
	Src string // path relative to the repository, e.g. cmd/plugins/memory-qos/main.go
	Dst string // absolute path of the (non-existing) file in the harness package
	Pkg string // new package name
}

type config struct {
	Transplants []transplant
	Repo        string
	Out         string
	Overlay     string   // /verif/overlay
	Patterns    []string // packages to instrument
	Subst       []substRule
	SyncPkgs    []string                     // packages whose sync points are rewritten
	Touch       map[string]map[string]string // package (relative) -> receiver type name -> probe kind
	Report      bool
}

const modPrefix = "github.com/containers/nri-plugins/"

func fatalf(format string, a ...any) {
	fmt.Fprintf(os.Stderr, "verifgen: "+format+"\n", a...)
	os.Exit(2)
}

func main() {
	var cfg config
	var pats, syncs, substFile string
	flag.StringVar(&cfg.Repo, "repo", "/repo", "repository root")
	flag.StringVar(&cfg.Out, "out", "", "output directory")
	flag.StringVar(&cfg.Overlay, "overlay", "/verif/overlay", "directory of extra in-package files")
	flag.StringVar(&pats, "pkgs", "", "comma-separated package patterns (relative to repo, e.g. ./pkg/resmgr/...)")
	flag.StringVar(&syncs, "sync", "", "comma-separated package paths (relative) whose sync points are rewritten")
	flag.StringVar(&substFile, "subst", "", "JSON file with substitution rules")
	flag.BoolVar(&cfg.Report, "report", false, "print a report of rewritten sites")
	var touches string
	flag.StringVar(&touches, "touch", "", "comma-separated pkg:recvType:kind triples: methods of *recvType get an access probe")
	var transplants string
	flag.StringVar(&transplants, "transplant", "", "comma-separated src:dst:pkg triples")
	flag.Parse()
	if cfg.Out == "" || pats == "" {
		fatalf("usage: verifgen -out DIR -pkgs PATTERNS")
	}
	cfg.Patterns = strings.Split(pats, ",")
	if transplants != "" {
		for _, t := range strings.Split(transplants, ",") {
			f := strings.Split(t, ":")
			if len(f) != 3 {
				fatalf("bad -transplant entry %q", t)
			}
			cfg.Transplants = append(cfg.Transplants, transplant{Src: f[0], Dst: f[1], Pkg: f[2]})
		}
	}
	if syncs != "" {
		cfg.SyncPkgs = strings.Split(syncs, ",")
	}
	cfg.Touch = map[string]map[string]string{}
	if touches != "" {
		for _, t := range strings.Split(touches, ",") {
			f := strings.Split(t, ":")
			if len(f) != 3 {
				fatalf("bad -touch entry %q", t)
			}
			pkg := strings.TrimPrefix(f[0], "./")
			if cfg.Touch[pkg] == nil {
				cfg.Touch[pkg] = map[string]string{}
			}
			cfg.Touch[pkg][f[1]] = f[2]
		}
	}
	if substFile != "" {
		b, err := os.ReadFile(substFile)
		if err != nil {
			fatalf("%v", err)
		}
		if err := json.Unmarshal(b, &cfg.Subst); err != nil {
			fatalf("subst file: %v", err)
		}
	}
	if err := run(&cfg); err != nil {
		fatalf("%v", err)
	}
}

type stats struct {
	Ranges   int
	Substs   int
	Syncs    int
	Files    int
	KeyTypes map[string]int
}

func run(cfg *config) error {
	if err := os.MkdirAll(cfg.Out, 0o755); err != nil {
		return err
	}
	fset := token.NewFileSet()
	pcfg := &packages.Config{
		Mode: packages.NeedName | packages.NeedFiles | packages.NeedCompiledGoFiles |
			packages.NeedSyntax | packages.NeedTypes | packages.NeedTypesInfo | packages.NeedImports | packages.NeedDeps,
		Dir:        cfg.Repo,
		Fset:       fset,
		Tests:      false,
		BuildFlags: []string{"-tags=verif"},
		Env:        append(os.Environ(), "GOFLAGS=-mod=mod", "GOPROXY=off", "GOSUMDB=off", "GOTOOLCHAIN=local"),
		ParseFile: func(fset *token.FileSet, filename string, src []byte) (*ast.File, error) {
			return parser.ParseFile(fset, filename, src, parser.ParseComments|parser.SkipObjectResolution)
		},
	}
	pkgs, err := packages.Load(pcfg, cfg.Patterns...)
	if err != nil {
		return fmt.Errorf("load: %w", err)
	}
	nerr := 0
	for _, p := range pkgs {
		for _, e := range p.Errors {
			fmt.Fprintf(os.Stderr, "verifgen: %s: %v\n", p.PkgPath, e)
			nerr++
		}
	}
	if nerr > 0 {
		return fmt.Errorf("%d package errors in the tree", nerr)
	}
	st := &stats{KeyTypes: map[string]int{}}
	overlay := map[string]string{}
	transplanted := map[string]bool{}
	syncSet := map[string]bool{}
	for _, s := range cfg.SyncPkgs {
		syncSet[modPrefix+strings.TrimPrefix(s, "./")] = true
	}
	sort.Slice(pkgs, func(i, j int) bool { return pkgs[i].PkgPath < pkgs[j].PkgPath })
	for _, p := range pkgs {
		if !strings.HasPrefix(p.PkgPath, modPrefix) {
			continue
		}
		for i, f := range p.Syntax {
			fname := p.CompiledGoFiles[i]
			if !strings.HasPrefix(fname, cfg.Repo+"/") {
				continue
			}
			rw := &rewriter{cfg: cfg, pkg: p, file: f, fset: fset, st: st, sync: syncSet[p.PkgPath], fname: fname, extra: map[string]bool{}}
			changed, err := rw.rewrite()
			if err != nil {
				return fmt.Errorf("%s: %w", fname, err)
			}
			rel0 := strings.TrimPrefix(fname, cfg.Repo+"/")
			for _, t := range cfg.Transplants {
				if t.Src != rel0 {
					continue
				}
				// print a copy under the new package name with main renamed
				oldName := f.Name.Name
				f.Name.Name = t.Pkg
				for _, d := range f.Decls {
					if fd, ok := d.(*ast.FuncDecl); ok && fd.Recv == nil && fd.Name.Name == "main" {
						fd.Name.Name = "verifOrigMain"
					}
				}
				var tb bytes.Buffer
				if err := format.Node(&tb, fset, f); err != nil {
					return fmt.Errorf("%s: print transplant: %w", fname, err)
				}
				f.Name.Name = oldName
				for _, d := range f.Decls {
					if fd, ok := d.(*ast.FuncDecl); ok && fd.Recv == nil && fd.Name.Name == "verifOrigMain" {
						fd.Name.Name = "main"
					}
				}
				tdst := filepath.Join(cfg.Out, "transplant", t.Pkg+"_"+filepath.Base(t.Src))
				if err := os.MkdirAll(filepath.Dir(tdst), 0o755); err != nil {
					return err
				}
				hdr := "//go:build verif\n\n// Code generated by verifgen from " + t.Src + "; DO NOT EDIT.\n\n"
				if err := os.WriteFile(tdst, append([]byte(hdr), tb.Bytes()...), 0o644); err != nil {
					return err
				}
				overlay[t.Dst] = tdst
				transplanted[t.Src] = true
			}
			if !changed {
				continue
			}
			var buf bytes.Buffer
			if err := format.Node(&buf, fset, f); err != nil {
				return fmt.Errorf("%s: print: %w", fname, err)
			}
			rel := strings.TrimPrefix(fname, cfg.Repo+"/")
			dst := filepath.Join(cfg.Out, "src", rel)
			if err := os.MkdirAll(filepath.Dir(dst), 0o755); err != nil {
				return err
			}
			if err := os.WriteFile(dst, buf.Bytes(), 0o644); err != nil {
				return err
			}
			overlay[fname] = dst
			st.Files++
		}
	}
	// extra in-package files: <overlay>/repo/<relpath>/<file>.go -> /repo/<relpath>/<file>.go
	extraRoot := filepath.Join(cfg.Overlay, "repo")
	if _, err := os.Stat(extraRoot); err == nil {
		err := filepath.Walk(extraRoot, func(path string, info os.FileInfo, err error) error {
			if err != nil || info.IsDir() || !strings.HasSuffix(path, ".go") {
				return err
			}
			rel := strings.TrimPrefix(path, extraRoot+"/")
			target := filepath.Join(cfg.Repo, rel)
			if _, err := os.Stat(target); err == nil {
				return fmt.Errorf("overlay file %s would shadow an existing repository file", rel)
			}
			overlay[target] = path
			return nil
		})
		if err != nil {
			return err
		}
	}
	// replacement files for module-cache dependencies: <overlay>/mod/<path under GOMODCACHE>
	modRoot := filepath.Join(cfg.Overlay, "mod")
	if _, err := os.Stat(modRoot); err == nil {
		gomodcache := os.Getenv("GOMODCACHE")
		if gomodcache == "" {
			gomodcache = filepath.Join(os.Getenv("HOME"), "go", "pkg", "mod")
		}
		err := filepath.Walk(modRoot, func(path string, info os.FileInfo, err error) error {
			if err != nil || info.IsDir() || !strings.HasSuffix(path, ".go") {
				return err
			}
			rel := strings.TrimPrefix(path, modRoot+"/")
			target := filepath.Join(gomodcache, rel)
			if _, err := os.Stat(target); err != nil {
				return fmt.Errorf("overlay mod file %s has no original at %s", rel, target)
			}
			overlay[target] = path
			return nil
		})
		if err != nil {
			return err
		}
	}
	for _, t := range cfg.Transplants {
		if !transplanted[t.Src] {
			return fmt.Errorf("transplant source %s not found among the loaded packages", t.Src)
		}
	}
	ov := struct{ Replace map[string]string }{overlay}
	b, _ := json.MarshalIndent(ov, "", " ")
	if err := os.WriteFile(filepath.Join(cfg.Out, "overlay.json"), b, 0o644); err != nil {
		return err
	}
	sb, _ := json.MarshalIndent(st, "", " ")
	if err := os.WriteFile(filepath.Join(cfg.Out, "verifgen-stats.json"), sb, 0o644); err != nil {
		return err
	}
	if cfg.Report {
		fmt.Printf("verifgen: %d files, %d map ranges, %d substitutions, %d sync points\n", st.Files, st.Ranges, st.Substs, st.Syncs)
	}
	return nil
}

type rewriter struct {
	cfg      *config
	pkg      *packages.Package
	file     *ast.File
	fset     *token.FileSet
	st       *stats
	sync     bool
	fname    string
	needRT   bool
	extra    map[string]bool
	changed  bool
	err      error
	parentOf map[ast.Node]ast.Node
}

func (rw *rewriter) site(pos token.Pos) string {
	p := rw.fset.Position(pos)
	return strings.TrimPrefix(p.Filename, rw.cfg.Repo+"/") + ":" + strconv.Itoa(p.Line)
}

func (rw *rewriter) rtSel(name string) ast.Expr {
	rw.needRT = true
	return &ast.SelectorExpr{X: ast.NewIdent(rtName), Sel: ast.NewIdent(name)}
}

func (rw *rewriter) rules() map[string]string {
	m := map[string]string{}
	rel := strings.TrimPrefix(rw.pkg.PkgPath, modPrefix)
	for _, r := range rw.cfg.Subst {
		if r.Pkg == "" || r.Pkg == rel {
			m[r.From] = r.To
		}
	}
	return m
}

func isMap(t types.Type) bool {
	if t == nil {
		return false
	}
	switch u := t.Underlying().(type) {
	case *types.Map:
		return true
	case *types.Interface:
		// type parameter: core type
		if tp, ok := t.(*types.TypeParam); ok {
			_ = tp
			return false
		}
		_ = u
	}
	return false
}

func (rw *rewriter) rewrite() (bool, error) {
	rules := rw.rules()
	info := rw.pkg.TypesInfo
	usedPkgs := map[*types.PkgName]int{} // remaining uses
	replacedPkgs := map[*types.PkgName]int{}
	for id, obj := range info.Uses {
		if pn, ok := obj.(*types.PkgName); ok {
			if rw.fset.File(id.Pos()) != nil && rw.fset.Position(id.Pos()).Filename == rw.fname {
				usedPkgs[pn]++
			}
		}
	}

	rw.parentOf = map[ast.Node]ast.Node{}
	pre := func(c *astutil.Cursor) bool {
		if c.Node() != nil && c.Parent() != nil {
			rw.parentOf[c.Node()] = c.Parent()
		}
		return true
	}
	post := func(c *astutil.Cursor) bool {
		switch n := c.Node().(type) {
		case *ast.RangeStmt:
			tv, ok := info.Types[n.X]
			if !ok {
				return true
			}
			if tp, isTP := tv.Type.(*types.TypeParam); isTP {
				if _, isM := coreType(tp).(*types.Map); isM {
					rw.err = fmt.Errorf("%s: range over type-parameter map not supported", rw.site(n.Pos()))
				}
				return true
			}
			if !isMap(tv.Type) {
				return true
			}
			rw.rewriteRange(n, tv.Type)
		case *ast.SelectorExpr:
			id, ok := n.X.(*ast.Ident)
			if !ok {
				return true
			}
			pn, ok := info.Uses[id].(*types.PkgName)
			if !ok {
				return true
			}
			key := pn.Imported().Path() + "." + n.Sel.Name
			to, ok := rules[key]
			if !ok {
				return true
			}
			expr, err := parser.ParseExpr(to)
			if err != nil {
				rw.err = fmt.Errorf("bad substitution %q: %v", to, err)
				return true
			}
			if strings.Contains(to, rtName) {
				rw.needRT = true
			}
			for alias := range extraImports {
				if strings.Contains(to, alias+".") {
					rw.extra[alias] = true
				}
			}
			c.Replace(expr)
			replacedPkgs[pn]++
			rw.st.Substs++
			rw.changed = true
		case *ast.GoStmt:
			if rw.sync {
				rw.rewriteGo(c, n)
			}
		case *ast.UnaryExpr:
			if rw.sync && n.Op == token.ARROW {
				rw.rewriteRecv(c, n)
			}
		case *ast.FuncDecl:
			rw.insertTouch(n)
		case *ast.CallExpr:
			if rw.rewriteMethodCall(c, n, rules) {
				return true
			}
			if rw.sync {
				rw.rewriteSyncCall(c, n)
			}
		}
		return true
	}
	astutil.Apply(rw.file, pre, post)
	if rw.err != nil {
		return false, rw.err
	}
	if !rw.changed {
		return false, nil
	}
	for pn, n := range replacedPkgs {
		if usedPkgs[pn] == n {
			name := ""
			// explicit alias?
			for _, imp := range rw.file.Imports {
				p, _ := strconv.Unquote(imp.Path.Value)
				if p == pn.Imported().Path() && imp.Name != nil {
					name = imp.Name.Name
				}
			}
			if !astutil.DeleteNamedImport(rw.fset, rw.file, name, pn.Imported().Path()) {
				return false, fmt.Errorf("could not delete unused import %s", pn.Imported().Path())
			}
		}
	}
	if rw.needRT {
		astutil.AddNamedImport(rw.fset, rw.file, rtName, rtPath)
	}
	for alias := range rw.extra {
		astutil.AddNamedImport(rw.fset, rw.file, alias, extraImports[alias])
	}
	return true, nil
}

// rewriteMethodCall applies "(recv).Method" substitution rules: x.M(args) -> To(x, args).
func (rw *rewriter) rewriteMethodCall(c *astutil.Cursor, n *ast.CallExpr, rules map[string]string) bool {
	sel, ok := n.Fun.(*ast.SelectorExpr)
	if !ok {
		return false
	}
	s, ok := rw.pkg.TypesInfo.Selections[sel]
	if !ok || s.Kind() != types.MethodVal {
		return false
	}
	fn, ok := s.Obj().(*types.Func)
	if !ok {
		return false
	}
	recv := fn.Type().(*types.Signature).Recv()
	if recv == nil {
		return false
	}
	key := "(" + recv.Type().String() + ")." + fn.Name()
	to, ok := rules[key]
	if !ok {
		return false
	}
	expr, err := parser.ParseExpr(to)
	if err != nil {
		rw.err = fmt.Errorf("bad substitution %q: %v", to, err)
		return false
	}
	rw.needRT = true
	var recvExpr ast.Expr = sel.X
	if _, isPtr := recv.Type().(*types.Pointer); isPtr {
		if _, xPtr := rw.pkg.TypesInfo.Types[sel.X].Type.Underlying().(*types.Pointer); !xPtr {
			recvExpr = &ast.UnaryExpr{Op: token.AND, X: sel.X}
		}
	}
	c.Replace(&ast.CallExpr{Fun: expr, Args: append([]ast.Expr{recvExpr}, n.Args...), Ellipsis: n.Ellipsis})
	rw.st.Substs++
	rw.changed = true
	return true
}

func coreType(tp *types.TypeParam) types.Type {
	iface, ok := tp.Constraint().Underlying().(*types.Interface)
	if !ok {
		return nil
	}
	var core types.Type
	for i := 0; i < iface.NumEmbeddeds(); i++ {
		switch t := iface.EmbeddedType(i).(type) {
		case *types.Union:
			for j := 0; j < t.Len(); j++ {
				u := t.Term(j).Type().Underlying()
				if core == nil {
					core = u
				}
			}
		default:
			if core == nil {
				core = t.Underlying()
			}
		}
	}
	return core
}

func isBlank(e ast.Expr) bool {
	if e == nil {
		return true
	}
	id, ok := e.(*ast.Ident)
	return ok && id.Name == "_"
}

func (rw *rewriter) rewriteRange(n *ast.RangeStmt, t types.Type) {
	m := t.Underlying().(*types.Map)
	rw.st.KeyTypes[m.Key().String()]++
	rw.st.Ranges++
	rw.changed = true
	site := rw.site(n.Pos())
	itName := "verifIt_"
	okName := "verifOk_"

	key := n.Key
	val := n.Value
	if key == nil {
		key = ast.NewIdent("_")
	}
	if val == nil {
		val = ast.NewIdent("_")
	}
	getCall := &ast.CallExpr{Fun: &ast.SelectorExpr{X: ast.NewIdent(itName), Sel: ast.NewIdent("Get")}}
	var head []ast.Stmt
	if n.Tok == token.ASSIGN {
		head = append(head,
			&ast.DeclStmt{Decl: &ast.GenDecl{Tok: token.VAR, Specs: []ast.Spec{
				&ast.ValueSpec{Names: []*ast.Ident{ast.NewIdent(okName)}, Type: ast.NewIdent("bool")}}}},
			&ast.AssignStmt{Lhs: []ast.Expr{key, val, ast.NewIdent(okName)}, Tok: token.ASSIGN, Rhs: []ast.Expr{getCall}},
		)
	} else {
		head = append(head,
			&ast.AssignStmt{Lhs: []ast.Expr{key, val, ast.NewIdent(okName)}, Tok: token.DEFINE, Rhs: []ast.Expr{getCall}},
		)
	}
	head = append(head, &ast.IfStmt{
		Cond: &ast.UnaryExpr{Op: token.NOT, X: ast.NewIdent(okName)},
		Body: &ast.BlockStmt{List: []ast.Stmt{&ast.BranchStmt{Tok: token.CONTINUE}}},
	})
	n.Body.List = append(head, n.Body.List...)
	n.X = &ast.CallExpr{
		Fun:  rw.rtSel("Iter"),
		Args: []ast.Expr{n.X, &ast.BasicLit{Kind: token.STRING, Value: strconv.Quote(site)}},
	}
	n.Key = ast.NewIdent("_")
	n.Value = ast.NewIdent(itName)
	n.Tok = token.DEFINE
}

// ---------------------------------------------------------------------------
// synchronisation points

func (rw *rewriter) rewriteGo(c *astutil.Cursor, n *ast.GoStmt) {
	// go f(args) -> verifrt_.Go("site", func() { f(args) }) with args evaluated now
	site := rw.site(n.Pos())
	call := n.Call
	// evaluate function value and arguments at the go statement, as Go does
	var assigns []ast.Stmt
	newArgs := make([]ast.Expr, len(call.Args))
	for i, a := range call.Args {
		name := fmt.Sprintf("verifArg%d_", i)
		assigns = append(assigns, &ast.AssignStmt{Lhs: []ast.Expr{ast.NewIdent(name)}, Tok: token.DEFINE, Rhs: []ast.Expr{a}})
		newArgs[i] = ast.NewIdent(name)
	}
	inner := &ast.CallExpr{Fun: call.Fun, Args: newArgs, Ellipsis: call.Ellipsis}
	goCall := &ast.ExprStmt{X: &ast.CallExpr{
		Fun: rw.rtSel("Go"),
		Args: []ast.Expr{
			&ast.BasicLit{Kind: token.STRING, Value: strconv.Quote(site)},
			&ast.FuncLit{Type: &ast.FuncType{Params: &ast.FieldList{}}, Body: &ast.BlockStmt{List: []ast.Stmt{&ast.ExprStmt{X: inner}}}},
		},
	}}
	blk := &ast.BlockStmt{List: append(assigns, goCall)}
	c.Replace(blk)
	rw.st.Syncs++
	rw.changed = true
}

// rewriteRecv: <-ch (single-value receive outside select) -> verifrt_.Recv(ch, "site")
func (rw *rewriter) rewriteRecv(c *astutil.Cursor, n *ast.UnaryExpr) {
	switch p := c.Parent().(type) {
	case *ast.CommClause:
		return // select case: left alone (only the daemon event loop has them)
	case *ast.AssignStmt:
		if len(p.Lhs) == 2 && len(p.Rhs) == 1 {
			if _, inSelect := rw.parentOf[p].(*ast.CommClause); inSelect {
				return
			}
			rw.err = fmt.Errorf("%s: two-value channel receive in a sync package is not supported", rw.site(n.Pos()))
			return
		}
		if _, inSelect := rw.parentOf[p].(*ast.CommClause); inSelect {
			return
		}
	case *ast.ExprStmt:
		if _, inSelect := rw.parentOf[p].(*ast.CommClause); inSelect {
			return
		}
	}
	c.Replace(&ast.CallExpr{
		Fun:  rw.rtSel("Recv"),
		Args: []ast.Expr{n.X, &ast.BasicLit{Kind: token.STRING, Value: strconv.Quote(rw.site(n.Pos()))}},
	})
	rw.st.Syncs++
	rw.changed = true
}

// insertTouch: methods of the configured receiver types start with an access
// probe (C15 mutual-exclusion monitor).
func (rw *rewriter) insertTouch(n *ast.FuncDecl) {
	rel := strings.TrimPrefix(rw.pkg.PkgPath, modPrefix)
	kinds := rw.cfg.Touch[rel]
	if kinds == nil || n.Recv == nil || len(n.Recv.List) != 1 || n.Body == nil {
		return
	}
	t := n.Recv.List[0].Type
	if st, ok := t.(*ast.StarExpr); ok {
		t = st.X
	}
	id, ok := t.(*ast.Ident)
	if !ok {
		return
	}
	kind, ok := kinds[id.Name]
	if !ok {
		return
	}
	probe := &ast.ExprStmt{X: &ast.CallExpr{
		Fun: rw.rtSel("Touch"),
		Args: []ast.Expr{
			&ast.BasicLit{Kind: token.STRING, Value: strconv.Quote(kind)},
			&ast.BasicLit{Kind: token.STRING, Value: strconv.Quote(id.Name + "." + n.Name.Name)},
		},
	}}
	n.Body.List = append([]ast.Stmt{probe}, n.Body.List...)
	rw.st.Syncs++
	rw.changed = true
}

func (rw *rewriter) rewriteSyncCall(c *astutil.Cursor, n *ast.CallExpr) {
	sel, ok := n.Fun.(*ast.SelectorExpr)
	if !ok || len(n.Args) != 0 {
		return
	}
	s, ok := rw.pkg.TypesInfo.Selections[sel]
	if !ok || s.Kind() != types.MethodVal {
		return
	}
	fn, ok := s.Obj().(*types.Func)
	if !ok || fn.Pkg() == nil || fn.Pkg().Path() != "sync" {
		return
	}
	recv := fn.Type().(*types.Signature).Recv().Type().String()
	var kind string
	switch recv {
	case "*sync.Mutex", "*sync.RWMutex":
	default:
		return
	}
	switch fn.Name() {
	case "Lock", "Unlock", "RLock", "RUnlock":
		kind = fn.Name()
	default:
		return
	}
	// x.Lock() -> verifrt_.Lock(&x.<path to mutex>, "site"): we pass the
	// receiver expression; verifrt accepts anything with TryLock/Unlock etc.
	site := rw.site(n.Pos())
	var recvExpr ast.Expr = sel.X
	// pass addressable receiver by pointer unless it already is a pointer
	if _, isPtr := rw.pkg.TypesInfo.Types[sel.X].Type.Underlying().(*types.Pointer); !isPtr {
		recvExpr = &ast.UnaryExpr{Op: token.AND, X: sel.X}
	}
	c.Replace(&ast.CallExpr{
		Fun:  rw.rtSel(kind),
		Args: []ast.Expr{recvExpr, &ast.BasicLit{Kind: token.STRING, Value: strconv.Quote(site)}},
	})
	rw.st.Syncs++
	rw.changed = true
}
