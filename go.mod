module verifh

go 1.23.4

require (
	github.com/containerd/nri v0.6.0
	github.com/containers/nri-plugins v0.0.0
	k8s.io/api v0.31.2
	k8s.io/apimachinery v0.31.2
	k8s.io/klog/v2 v2.130.1
	k8s.io/kubelet v0.31.2
)

require (
	github.com/containerd/ttrpc v1.2.3-0.20231030150553-baadfd8e7956 // indirect
	github.com/containers/nri-plugins/pkg/topology v0.0.0 // indirect
	github.com/fxamacker/cbor/v2 v2.7.0 // indirect
	github.com/go-logr/logr v1.4.2 // indirect
	github.com/gogo/protobuf v1.3.2 // indirect
	github.com/google/gofuzz v1.2.0 // indirect
	github.com/intel/goresctrl v0.8.0 // indirect
	github.com/json-iterator/go v1.1.12 // indirect
	github.com/modern-go/concurrent v0.0.0-20180306012644-bacd9c7ef1dd // indirect
	github.com/modern-go/reflect2 v1.0.2 // indirect
	github.com/opencontainers/runtime-spec v1.1.0 // indirect
	github.com/sirupsen/logrus v1.9.3 // indirect
	github.com/x448/float16 v0.8.4 // indirect
	golang.org/x/net v0.36.0 // indirect
	golang.org/x/sys v0.30.0 // indirect
	golang.org/x/text v0.22.0 // indirect
	golang.org/x/time v0.3.0 // indirect
	google.golang.org/genproto/googleapis/rpc v0.0.0-20240701130421-f6361c86f094 // indirect
	google.golang.org/grpc v1.65.0 // indirect
	google.golang.org/protobuf v1.34.2 // indirect
	gopkg.in/inf.v0 v0.9.1 // indirect
	gopkg.in/yaml.v2 v2.4.0 // indirect
	k8s.io/cri-api v0.31.2 // indirect
	k8s.io/utils v0.0.0-20240711033017-18e509b52bc8 // indirect
	sigs.k8s.io/json v0.0.0-20221116044647-bc3834ca7abd // indirect
	sigs.k8s.io/structured-merge-diff/v4 v4.4.1 // indirect
	sigs.k8s.io/yaml v1.4.0 // indirect
)

replace github.com/containers/nri-plugins => /repo

replace github.com/containers/nri-plugins/pkg/topology => /repo/pkg/topology
