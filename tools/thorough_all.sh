#!/bin/bash
# thorough_all.sh <seed> [props...]: the thorough tier of every check, from the directory this script lives in
# (so it also works in a `vp run` snapshot), against ${VERIF_REPO:-/repo}. Prints one line per check plus
# every violation signature that is not a listed known finding.
cd "$(dirname "$(readlink -f "$0")")/.." || exit 2
S=$1; shift
PROPS=${@:-C06 C07 C10 C17 C18 C01 C02 C03 C04 C05 C08 C09 C11 C12 C13 C14 C15 C16}
for P in $PROPS; do
  VERIF_TIER=thorough VERIF_SEED=$S ./check $P > thor_$P.$S.log 2>&1; rc=$?
  echo "rc=$rc $(tail -1 thor_$P.$S.log)"
  grep -E "exceeded the per-run|harness error|build trouble" thor_$P.$S.log | sed "s/^/  TROUBLE $P: /"
  grep -A1 "^VIOLATION" thor_$P.$S.log | grep "signature=" | sed "s/.*signature=\"\([^\"]*\)\" runs=\([0-9]*\).*/  UNKNOWN $P \2 \1/"
done
