#!/bin/bash
# confirm_mutant.sh <worktree> <mutant-dir> <demo-dest (relative path in repo)> <go test -run regex> <package> [extra packages to test...]
# Confirms: patch applies, builds, demo FAILS with patch and PASSES without, stable baseline tests of the touched packages still pass.
WT=$1; M=$2; DEST=$3; RX=$4; PKG=$5; shift 5
export GOFLAGS=-mod=mod GOPROXY=off GOSUMDB=off GOTOOLCHAIN=local
cd $WT || exit 2
git checkout -q -- . ; rm -f $DEST
DEMO=$(ls $M/demo_test.go $M/demo*.go 2>/dev/null | head -1)
cp $DEMO $DEST
timeout 900 go test -vet=off -count=1 -run "$RX" $PKG > /tmp/confirm_clean.log 2>&1; CLEAN=$?
git apply $M/patch.diff || { echo "PATCH DOES NOT APPLY"; rm -f $DEST; exit 2; }
timeout 600 go build ./... > /tmp/confirm_build.log 2>&1; BUILD=$?
timeout 900 go test -vet=off -count=1 -run "$RX" $PKG > /tmp/confirm_mut.log 2>&1; MUT=$?
rm -f $DEST
# existing tests of touched packages (compare against stable_pass)
PKGS=$(git diff --name-only | xargs -n1 dirname | sort -u | sed 's|^|./|')
timeout 1500 go test -json -vet=off -count=1 $PKGS "$@" 2>/dev/null > /tmp/confirm_suite.json
python3 - <<'PY'
import json
base=set(json.load(open('/root/.vp/BASELINE.json'))['stable_pass'])
passed=set(); failed=set(); pkgs=set()
for l in open('/tmp/confirm_suite.json'):
    try: e=json.loads(l)
    except Exception: continue
    if e.get('Package'): pkgs.add(e['Package'])
    if e.get('Test') and e.get('Action') in('pass','fail'):
        (passed if e['Action']=='pass' else failed).add(e['Package']+'::'+e['Test'])
want={t for t in base if t.split('::')[0] in pkgs}
miss=sorted(want-passed)
print(f"suite: {len(want&passed)}/{len(want)} stable tests of touched packages pass")
for m in miss[:10]: print("  BROKEN:",m)
PY
git checkout -q -- .
echo "build=$BUILD demo_clean_rc=$CLEAN (want 0) demo_mutant_rc=$MUT (want !=0)"
