#!/bin/bash
# known_usage.sh <seed> <runs> [props...]: runs the checks at a larger scale and lists, per property,
# every known-finding signature that fired and every VIOLATION signature not listed (triage input).
# Evidence files are overwritten: refresh them with plain ./check afterwards.
cd /verif; S=$1; R=$2; shift 2
PROPS=${@:-C01 C02 C03 C04 C05 C08 C09 C11 C12 C13 C14 C15 C16}
for P in $PROPS; do
  if [ -n "$(git -C ${VERIF_REPO:-/repo} status --porcelain --untracked-files=no)" ]; then echo "ABORT: the repository has uncommitted changes (a seeded change is applied?)"; exit 3; fi
  VERIF_SEED=$S VERIF_RUNS=$R VERIF_SECS=900 ./check $P > /tmp/ku_$P.$S.log 2>&1; rc=$?
  grep -E "^KNOWN" /tmp/ku_$P.$S.log | sed 's/^KNOWN-FINDING: property=\([^ ]*\) signature="\([^"]*\)" (\([0-9]*\) runs).*/KNOWN \1 \3 \2/'
  grep -A1 "^VIOLATION" /tmp/ku_$P.$S.log | grep "signature=" | sed "s/.*signature=\"\([^\"]*\)\" runs=\([0-9]*\).*/UNKNOWN $P \2 \1/"
  echo "rc=$rc $(grep -E "^check $P" /tmp/ku_$P.$S.log | tail -1)"
  grep -E "exceeded the per-run|harness error|build trouble" /tmp/ku_$P.$S.log | sed "s/^/TROUBLE $P: /"
  if [ -n "$(git -C ${VERIF_REPO:-/repo} status --porcelain --untracked-files=no)" ]; then echo "TAINTED $P: /repo changed during the run"; fi
done
