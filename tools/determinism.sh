#!/bin/bash
# determinism.sh [props...]: for each property, runs the same run indices in fresh processes at
# GOMAXPROCS 1, 4 and 16 (batch mode) and a sample of them one run per process, and diffs the
# per-run digests (hash of the decision log: map-order draws, scheduler choices, fs ops, oracle
# observations). Any difference is a determinism bug of the simulator: exit 1.
cd /verif
PROPS=${@:-C06 C07 C10 C01 C02 C03 C04 C05 C08 C09 C11 C12 C13 C14 C15 C16 C17 C18}
N=${N:-120}
export TMPDIR=/dev/shm/vt-det; mkdir -p $TMPDIR
engine_of() { case $1 in C06|C07) echo memsim;; C10) echo cachesim;; C17) echo agentsim;; C18) echo annsim;; *) echo nrisim;; esac; }
rc=0
for P in $PROPS; do
  VERIF_RUNS=16 ./check $P >/dev/null 2>&1
  D=$(ls -td /var/tmp/verif-cache/*/ | head -1); B=$D/bin-$(engine_of $P)
  [ -x $B ] || { echo "$P: no engine binary"; rc=2; continue; }
  for gp in 1 4 16; do GOMAXPROCS=$gp timeout 1200 $B -prop $P -seed 77 -from 0 -to $N -digests 2>/dev/null | grep -E "^[0-9]+ [0-9a-f]{16} " > $TMPDIR/$P.$gp; done
  : > $TMPDIR/$P.single
  for i in 3 17 41 58 $((N-1)); do timeout 300 $B -prop $P -seed 77 -from $i -to $((i+1)) -digests 2>/dev/null | grep -E "^[0-9]+ [0-9a-f]{16} " >> $TMPDIR/$P.single; done
  ok=1
  cmp -s $TMPDIR/$P.1 $TMPDIR/$P.4 || ok=0
  cmp -s $TMPDIR/$P.1 $TMPDIR/$P.16 || ok=0
  while read i rest; do grep -q "^$i $rest\$" $TMPDIR/$P.1 || ok=0; done < $TMPDIR/$P.single
  n=$(wc -l < $TMPDIR/$P.1)
  if [ $ok = 1 ] && [ $n -ge $((N/2)) ]; then echo "$P: $n runs x {GOMAXPROCS 1,4,16} + 5 single-run processes: digests identical"; else echo "$P: DIGESTS DIFFER (or too few runs: $n)"; rc=1; fi
done
rm -rf $TMPDIR
exit $rc
