import json,collections,sys
viol=collections.Counter(); faults=collections.Counter(); probes=collections.Counter(); checks=collections.Counter(); extra=collections.Counter(); n=0; errs=0; ex={}
for l in open(sys.argv[1]):
    o=json.loads(l); n+=1
    if o.get('error'): errs+=1; print(o['error'][:1500]); continue
    r=o['result']
    for v in r.get('violations',[]):
        viol[v['signature']]+=1; ex.setdefault(v['signature'],(r['index'],v['detail'][:700]))
    for k,v in r.get('faults',{}).items(): faults[k]+=v
    for k,v in r.get('probes',{}).items(): probes[k]+=v
    for k,v in r.get('checks',{}).items(): checks[k]+=v
    for k,v in r.get('extra',{}).items(): extra[k]+=v
print("runs",n,"errors",errs); print("VIOL",dict(viol)); print("faults",dict(faults)); print("probes",dict(probes)); print("checks",dict(checks)); print("extra",dict(extra))
for k,v in ex.items(): print("---",k,"run",v[0]); print(v[1])
