#!/bin/bash
# try_mutant.sh <patch.diff> <prop> [prop...]: applies the patch to a private scratch worktree of /repo's HEAD
# (never to /repo; one worktree per invocation, so concurrent invocations do not disturb each other), runs the
# given checks against it through VERIF_REPO and prints their VIOLATION lines.
PATCH=$1; shift
SNAP=/var/tmp/repo-try-$$
trap 'git -C /repo worktree remove --force $SNAP >/dev/null 2>&1; rm -rf /var/tmp/verif-alt-out/$$' EXIT
git -C /repo worktree add --detach $SNAP HEAD -q || exit 2
git -C $SNAP apply $PATCH || { echo "PATCH DOES NOT APPLY"; exit 2; }
cd /verif
for P in "$@"; do
  VERIF_REPO=$SNAP VERIF_OUT=/var/tmp/verif-alt-out/$$ ./check $P 2>&1 | grep -E "^VIOLATION|^  clause|^check $P|build trouble" | cut -c1-220 | head -${LINES_MAX:-9}
done
