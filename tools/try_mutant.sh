#!/bin/bash
# try_mutant.sh <patch.diff> <prop> [prop...]: applies the patch to a scratch worktree of /repo's HEAD
# (never to /repo), runs the given checks against it through VERIF_REPO and prints their VIOLATION lines.
PATCH=$1; shift
SNAP=/var/tmp/repo-snap
[ -d $SNAP ] || git -C /repo worktree add --detach $SNAP HEAD -q
git -C $SNAP checkout -q -- . && git -C $SNAP checkout -q --detach $(git -C /repo rev-parse HEAD) || exit 2
git -C $SNAP apply $PATCH || { echo "PATCH DOES NOT APPLY"; exit 2; }
cd /verif
for P in "$@"; do
  VERIF_REPO=$SNAP ./check $P 2>&1 | grep -E "^VIOLATION|^  clause|^check $P|build trouble" | cut -c1-220 | head -${LINES_MAX:-9}
done
git -C $SNAP checkout -q -- .
