#!/usr/bin/env python3
"""keep_mutant.py <prop> <name> <mutant-dir> <needs> <caught-by/ran> : store a confirmed seeded change under /verif/seeded/<prop>-<name>/"""
import sys, os, shutil, json, glob
prop, name, mdir, needs, ran = sys.argv[1:6]
dst = f"/verif/seeded/{prop}-{name}"
os.makedirs(dst, exist_ok=True)
shutil.copy(os.path.join(mdir, "patch.diff"), dst)
for f in glob.glob(os.path.join(mdir, "demo*")) + glob.glob(os.path.join(mdir, "README.md")):
    if os.path.isdir(f):
        shutil.copytree(f, os.path.join(dst, os.path.basename(f)), dirs_exist_ok=True)
    else:
        shutil.copy(f, dst)
json.dump({"breaks_property": prop, "needs_to_manifest": needs, "what_was_run": ran, "source": "independent sub-agent given only the property text and a scratch worktree"}, open(os.path.join(dst, "meta.json"), "w"), indent=1)
print("kept", dst)
