#!/bin/bash
# refresh_evidence.sh: runs the quick command of every claimed property at the default seed against /repo itself
# (the evidence committed under /verif/evidence must come from exactly that) and validates MANIFEST.json and the
# evidence files against their schemas.
cd "$(dirname "$(readlink -f "$0")")/.." || exit 2
if [ -n "$(git -C /repo status --porcelain --untracked-files=no)" ]; then echo "ABORT: /repo has uncommitted changes"; exit 3; fi
bad=0
for P in C01 C02 C03 C04 C05 C06 C07 C08 C09 C10 C11 C12 C13 C14 C15 C16 C17 C18; do
  ./check $P > /tmp/ev_$P.log 2>&1; rc=$?
  echo "rc=$rc $(grep -E "^check $P" /tmp/ev_$P.log | tail -1)"
  grep -E "^VIOLATION|exceeded the per-run|harness error|build trouble" /tmp/ev_$P.log | head -3
  [ $rc = 0 ] || bad=1
done
python3 tools/mkmanifest.py > /dev/null
python3-vt - <<'PY' || bad=1
import json,jsonschema,glob
m=json.load(open('MANIFEST.json')); jsonschema.validate(m,json.load(open('/root/.vp/MANIFEST.schema.json')))
es=json.load(open('/root/.vp/EVIDENCE.schema.json'))
n=0
for f in sorted(glob.glob('evidence/*.json')):
    e=json.load(open(f)); jsonschema.validate(e,es); n+=1
    assert e.get('tier','quick')=='quick' and e.get('violations',0)==0, f
print('MANIFEST and',n,'evidence files valid')
PY
exit $bad
