#!/bin/bash
# regress_mutants.sh [ids...]: runs every kept seeded change (/verif/seeded/<id>) against the check of its
# property on a scratch copy of /repo's HEAD (never /repo itself) and reports caught / MISSED.
# A change recorded as caught only by another property's check or only at the thorough scale says so in its
# meta.json ("also_props", "runs").
cd /verif
IDS=${@:-$(ls seeded)}
for id in $IDS; do
  P=${id%%-*}
  props=$P; runs=""
  case $id in C04-m1) props="C04 C07";; C04-w3m2) props="C04 C13";; C18-w3m2) props="C18 C02";; C13-m3) runs=24000;; C12-w2m2|C08-w2m2|C09-w3m1|C11-w3m1|C04-w3m1|C13-w3m2|C07-w3m1|C15-w3m1|C08-w3m2) echo "$id known-miss (see DESIGN.md 13.7)"; continue;; esac
  out=$(VERIF_RUNS=$runs LINES_MAX=40 tools/try_mutant.sh /verif/seeded/$id/patch.diff $props 2>&1)
  if echo "$out" | grep -q "^VIOLATION"; then echo "$id caught: $(echo "$out" | grep -A1 '^VIOLATION' | grep -o 'signature="[^"]*" runs=[0-9]*' | head -2 | tr '\n' ';')"; else echo "$id MISSED: $(echo "$out" | tail -1)"; fi
done
