#!/usr/bin/env python3
"""Regenerates /verif/MANIFEST.json from the table below (single source of truth)."""
import json

CLAIMED = {
 "C06": dict(engine="memsim", level="exploration", ref="6 (C06), 5 (E2)",
   technique="deterministic simulation: seeded client interleavings of GetOffer/Commit/Allocate/Realloc/Release on the real libmem allocator, capacity-exhaustion and stale-offer faults, per-operation observation oracle + twin-allocator differential, ddmin replay",
   text="Seeded search over interleavings of 2-5 simulated clients sharing one real allocator, with offers committed arbitrarily late. After every operation the public observation (assignments, requests, zone usage) is compared with the reference rules: failed operations and GetOffer leave it unchanged, Release removes exactly one allocation, a stale offer (any successful Allocate/Realloc-with-change/Release/Commit/Reset since it was taken) must be refused, and a fresh Commit must equal a direct Allocate on a twin allocator that replays the same committed history and never sees offers (so hidden state left by offers shows up as a divergence). Exploration, not proof: ~24k runs quick, ~1.2M thorough.",
   note="Trusted: verifgen's map-range rewriting and verifrt's clock; the twin differential assumes libmem's outcome depends only on committed history, map order (same keys for both) and request age order. Only public API observations are compared."),
 "C07": dict(engine="memsim", level="exploration", ref="6 (C07), 5 (E2)",
   technique="deterministic simulation: same seeded libmem histories, placement oracles after every successful operation (independent capacity model over assigned zones and their unions, strict types, normal memory, monotone moves, exact update map)",
   text="Same runs as C06; after every successful Allocate/Realloc/Commit an independent model (request sizes and zones from the public API, capacities from the generated node set) checks capacity of every assigned zone and of every union of assigned zones, strict-type confinement, normal memory in each newly assigned zone, superset-only moves, immovable reservations, Realloc never removing nodes, and that the returned update map is exactly the set of changed assignments. One genuine defect (union-of-zones oversubscription) is recorded as a known finding.",
   note="Capacity is checked for assigned zones and unions of up to 12 distinct assigned zones; strict-type confinement treats types explicitly added by a later Realloc as requested."),
 "C10": dict(engine="cachesim", level="fault_enumeration", ref="6 (C10), 5 (E3)",
   technique="deterministic simulation with fault injection: sampled cache histories on a simulated disk (os.* seam), crash/torn-write/short-write/error enumerated at every fs-op boundary of every save, reload-and-compare against previous/new snapshot, state-directory tampering",
   text="For each sampled history the fs-op trace is recorded and the history is re-run once per fs-op boundary with a crash before/after it, torn writes at byte offsets 0,1,len/2,len-1,random, a short write and an error. After a crash a new cache instance must load the directory and equal (over every public getter of every pod, container and policy entry) either the previous or the interrupted snapshot; after an error the surviving instance must end with a loadable directory equal to its live state; after a clean save reload == live; the cache file may only change by rename; a symlinked / wrong-type / group- or other-writable cache file or state directory must be refused. Fault enumeration is exhaustive per sampled history over fs-op boundaries (not over all byte offsets); histories are sampled.",
   note="Process-kill durability model (no power loss). The shim sees every os.* call and *os.File method in pkg/resmgr/cache; ctime, pending marks and cached pretty names are excluded from the comparison because the property does not list them."),
}


E1NOTE = "Trusted: the runtime model (kubelet encodings, containerd lifecycle rules, told view), verifgen's rewrites and the overlay accessors (cross-checked against GetTopologyZones/ExportResourceData where the property names them). Pod-resources client absent; agent in local-config mode; cold-start completion not delivered."
def e1(prop, ref, text, tech):
    return dict(engine="nrisim", level="exploration", ref=ref, technique="deterministic simulation: real resmgr+cache+policy over a generated sysfs machine, simulated runtime/NRI stub/clock/fs/map order, seeded request histories with failing requests, reconfiguration and restart+Synchronize; "+tech, text=text, note=E1NOTE)
CLAIMED.update({
 "C01": e1("C01","6 (C01), 5 (E1)","After every request of a seeded history the told view of every live container and an in-package snapshot of pools and grants are checked: exclusive sets pairwise disjoint, in no other container's told cpuset, in no pool's shared set; every told cpuset inside the configured available CPUs; reserved CPUs only told to reserved-class containers and never mixed. Genuine defects found are listed as known findings with a cause classifier in the signature.","exclusivity oracle over told view + grant snapshot after every request"),
 "C02": e1("C02","6 (C02), 5 (E1)","After every request under the balloons policy: balloon cpusets pairwise disjoint and inside the available set, idle set == available minus balloons, every managed container in exactly one balloon, told cpuset == balloon CPUs + shared idle CPUs (one thread per core when hyperthreads are hidden, reference computed from the machine model), shared idle CPUs outside all balloons, never isolated and complete for the sharing scope (reference from the machine model), min/max CPUs and instances, non-empty balloons sized to their containers' requests, and every available CPU carries the CPU class of its balloon or else the idle class (read from the cpu controller's class-assignment entry in the cache).","balloons partition/confinement oracle after every request"),
 "C03": e1("C03","6 (C03), 5 (E1)","After every request under topology-aware: per pool the shared/reserved milli-CPU promised in the subtree <= 1000 x CPUs left in the pool's shared/reserved set, the ledger (grant portions == per-pool counters, never negative), zone Available never negative, every CPU-pinned container has a non-empty allowed set, exclusive CPU count == a reference eligibility model written from the documentation, isolated CPUs all-or-none and only when eligible, cpu.shares == kubelet encoding of the granted capacity.","pool capacity ledger + eligibility reference model after every request"),
 "C05": e1("C05","6 (C05), 5 (E1)","After every request under both policies: told view == cache view on cpuset, mems, shares, quota, period, memory limit, swap for every created/running container (an empty set recorded in the cache is read as 'no pinning' and not compared); nothing pending after the reply; the CreateContainer adjustment equals the cache values of the created container; at most one update per container per reply; no update for a stopped/removed container.","told-view == cache-view oracle after every request"),
 "C04": e1("C04","6 (C04), 5 (E1)","After every successful request under both policies, through the policy's libmem allocator (public API only): told memory nodes == AssignedZone for every container memory pinning applies to; told nodes non-empty, existing and with memory (machine model); every assigned zone and every union of assigned zones holds no more than its capacity (computed from request sizes and the machine model); every container whose assigned zone changed during a request is told its new zone in that same reply.","memory pinning oracle over told view + allocator public API"),
 "C08": e1("C08","6 (C08), 5 (E1)","A checking decorator around the policies' cpuallocator.CPUAllocator interface field checks every AllocateCpus/ReleaseCpus call made by simulated histories of both policies on generated topologies (hybrid, clustered, cache-group, cpufreq/EPP variants): exact count, subset, set bookkeeping, failure leaves the set unchanged; each call is repeated on copies of its arguments under two other seeded map-iteration orders and must give the same result (the allocator's only nondeterminism source). In addition a long-lived monitored allocator on the discovered system is driven with seeded direct calls (random subsets of the online CPUs or what the previous call left, counts 0..|set|+1, all priorities, all 16 flag combinations), since the property quantifies over all candidate sets; every direct call is repeated on a second allocator instance whose topology discovery ran under another map-iteration order and must give the same outcome. Machines include offline cores.","CPU allocator contract monitor + map-order determinism re-execution"),
 "C09": e1("C09","6 (C09), 5 (E1)","After every request a stopped container must hold no grant, balloon membership or memory allocation; at the end of every history everything is stopped and removed through the real handlers and the policy state is compared with a fresh twin instance given the last accepted configuration on the same machine (topology zones, pool free == total supply and zero counters; for balloons: the same balloons by type, size and membership and the same number of idle CPUs - which CPUs a surviving pre-created balloon holds and its instance number are not compared; no memory requests, empty cache).","leak oracle: stopped-holds-nothing + teardown vs fresh twin instance"),
 "C11": e1("C11","6 (C11), 5 (E1)","Restart at request boundaries on the persisted state directory with containers vanishing meanwhile, then Synchronize with the runtime's lists: nothing may be held by containers the runtime does not report created/running, the cache is purged of unknown pods/containers, every reported created/running container holds an allocation whenever that same set held allocations simultaneously before (and the configuration is unchanged), the invariants of C01-C04 hold and told view == cache view. Restarts are clean ones at request boundaries and kills of the plugin at a seeded file-system operation in the middle of a lifecycle request (the runtime carries on without the answer); torn writes are C10's subject.","restart + Synchronize convergence oracle"),
 "C13": e1("C13","6 (C13), 5 (E1)","Configuration updates at any request boundary through resmgr.updateConfig (real apply/revert path): identical updates must change no told view, zone or amount of memory the policy's allocator holds for a container; rejected updates must leave told views and zones unchanged and, differentially, every later request identical to a run that never received them; after accepted updates every created/running container holds an allocation, stopped ones none, C01-C04 hold and told == cache. Several genuine atomicity/idempotence defects are recorded as known findings.","reconfiguration oracle incl. differential twin without the rejected update"),
 "C14": e1("C14","6 (C14), 5 (E1, E5)","Out-of-protocol NRI event sequences (duplicates, reordering, unknown or forgotten ids, containers of unknown pods, absent optional sub-messages) and malformed annotation values against the real handlers of both resource-policy plugins, each call under recover with the logger's Fatal exit trapped through klog.OsExit; after every refused request a canonical pod+container life cycle must be served. The memory-qos, memtierd and sgx-epc handlers are driven by the annsim engine (same check).","panic/fatal-exit trap around every handler under NRI fault injection"),
 "C16": e1("C16","6 (C16), 5 (E1)","For every generated machine the discovered sysfs.System (CPU ids, package/die/node/core, thread siblings, online/isolated, node CPU lists, memory sizes, distances, cache sharing) and, per package and die, their CPU sets and NUMA-node lists must equal the model that was rendered (offline cores included in the machines), and the topology-aware pool snapshot must be a single tree with disjoint siblings, parents containing children, root == available CPUs, isolated/reserved/sharable a partition, all memory at the root, child memory within parent memory, CPU-less PMEM/HBM attached exactly to pools holding a closest CPU-bearing DRAM node. Configuration sampling evaluated at every start and accepted reconfiguration of the simulated histories.","discovery-vs-model and pool-tree well-formedness oracle at every start/reconfigure"),
 "C12": e1("C12","6 (C12), 5 (E1)","Every adjustment, returned update and pushed update of every request is inspected: a container opted out of CPU pinning (cpu.preserve at container/pod/bare level, balloons preserve rule, pinCPU off) is never told a cpuset it does not already hold; a container opted out of memory pinning (memory.preserve, pinMemory off globally or for its balloon type) is never told memory nodes other than those it already had. Cold-start completion is delivered by the harness (the event loop of this commit drops policy events).","opt-out oracle over every adjustment/update"),
})
CLAIMED["C18"] = dict(engine="annsim", level="exploration", ref="6 (C18), 5 (E5)",
   technique="deterministic simulation over the one nondeterminism source the property quantifies: seeded map-iteration orders of the plugins' annotation loops (verifgen range rewriting), handlers run in-package via source transplant, differential against a reference resolver",
   text="GetEffectiveAnnotation through a real cache, sgx-epc parseEpcLimit and the memory-qos / memtierd CreateContainer handlers are run on generated annotation maps (all three forms, container names that are prefixes/suffixes of each other or contain separators). Results must equal an independent resolver (container-specific > pod-wide > bare), be identical under 8 map-iteration orders per map, be unchanged when annotations addressed to other containers are removed, and an explicitly annotated cgroup parameter must win over the class-derived value. memtierd's StartContainer is run against a scratch cgroup tree and the memtierd configuration it prepares must be the one of the class effective for the container.",
   note="The plugins are package main: their sources are compiled into harness packages by verifgen (package clause and main() renamed, nothing else), so what runs is the repository's current code. 8 orders per map are sampled.")

CLAIMED["C17"] = dict(engine="agentsim", level="exploration", ref="6 (C17), 5 (E4)",
   technique="deterministic simulation in a testing/synctest bubble: real agent loop, ObjectWatch and clientsets over a simulated API server at the http.RoundTripper seam; seeded release order of queued watch events across the node, node-config and group-config streams, fake clock, injected watch expiry/ERROR/refused creation/refused status patch/callback rejection/agent restart; reference-model oracle on the objects handed to the plugin callback",
   text="The real Agent.Start loop is fed add/modify/re-create/delete events on the node-specific, default and group custom resources and label changes of the node, interleaved in a seeded order (including duplicates, same-generation re-deliveries produced by the agent's own status patches, synthetic ADDED after watch re-opening, deletions while the other kind is absent, and specs failing validation). After every released event the sequence of objects handed to the notify callback must be what the reference model of the documented precedence prescribes: node-specific over group/default, no delivery on a group update while a node-specific resource exists, fall-back on deletion, no delivery for a version already seen, never an object failing validation; after faults stop the agent watches exactly its node resource and the group its label names.",
   note="Built with go1.26.8 (testing/synctest) as a test binary. The API server is a stub at the HTTP level; the order in which the agent's select sees its three streams is the seeded release order (only one stream ever has an event in flight), not goroutine scheduling. Weaker readings taken: see evidence assumptions.")

CLAIMED["C15"] = dict(engine="nrisim", level="exploration", ref="6 (C15), 5 (E1)",
   technique="deterministic simulation with a seeded cooperative scheduler: the real handlers run as tasks of which exactly one runs at a time; verifgen turns every Lock/Unlock, go statement and channel receive of pkg/resmgr and pkg/resmgr/cache, and every method entry of the cache and policy types, into scheduling points / access probes; lock-discipline monitor, deadlock detection, serializability against k! sequential twin executions",
   text="After a sequential prefix, 2-3 independent requests (lifecycle requests, a configuration update, a Synchronize) are delivered concurrently under seeded schedules, including starvation-biased ones. Every cache/policy method entry inside a handler, or inside a goroutine a handler started, must happen under the resource manager's lock; no schedule may deadlock; the resulting plugin state and request outcomes must equal those of some sequential order of the same requests (each order executed in a fresh twin world); the C01-C05 invariants must hold on the resulting state; and a reader calling GetPodResources after InsertPod returned must observe what the asynchronous fetch delivers, for every scheduling of the fetch goroutine and the kubelet's answer.",
   note=E1NOTE+" The scheduler controls interleaving at synchronisation points and unprotected method entries, not at individual memory accesses; the Go race detector named in the property's observe_at is outside this technique. Four genuine defects found by this check were repaired in /repo (see known-findings.json, fixed entries).")

NOT_BUILT = {
}

NOT_APPLICABLE = {
 "C19": "pure functions of their input (expression evaluation, balloon-type selection): no state, schedule, clock, fault, I/O or map iteration in the evaluation paths, so deterministic simulation has nothing to control; exhaustive/property-based input testing is a different technique (DESIGN.md section 1)",
 "C20": "pure arithmetic on cgroup parameters (shares/quota/OOM-adjust conversions): no schedule, clock, fault or interleaving to simulate; decided by exhaustive enumeration of 262144 share values, which is not this technique (DESIGN.md section 1)",
}

ALL = ["C%02d" % i for i in range(1, 21)]

def main():
    checks = []
    for pid in ALL:
        if pid not in CLAIMED:
            continue
        c = CLAIMED[pid]
        checks.append({
            "property_id": pid,
            "quick_cmd": f"./check {pid} --tier quick",
            "thorough_cmd": f"./check {pid} --tier thorough",
            "evidence_file": f"/verif/evidence/{pid}.json",
            "replay_cmd_template": f"./check {pid} --replay {{path}}",
            "engine": c["engine"],
            "level_claimed": {"category": c["level"], "text": c["text"], "design_ref": "DESIGN.md section " + c["ref"]},
            "level_note": c["note"],
            "technique": c["technique"],
        })
    na = []
    for pid in ALL:
        if pid in CLAIMED:
            continue
        if pid in NOT_APPLICABLE:
            na.append({"property_id": pid, "reason": NOT_APPLICABLE[pid]})
        else:
            na.append({"property_id": pid, "reason": NOT_BUILT.get(pid, "not claimed yet: the simulation engine for this property is designed (DESIGN.md section 6) but its check is not built/validated at this commit")})
    engines = {}
    for pid, c in CLAIMED.items():
        engines.setdefault(c["engine"], []).append(pid)
    m = {
        "version": 1,
        "setup_cmd": "cd /verif && ./setup.sh",
        "hooks": {
            "guard": "verif",
            "enable": "no hook is committed to /repo: every check generates an instrumented copy of the relevant sources from /repo's working tree (verifgen: map-range order, clock/fs/stub symbol substitution, sync points) plus //go:build verif accessor files from /verif/overlay, and builds with `go build -tags verif -overlay <scratch>/overlay.json`",
            "baseline_off_cmd": "/verif/baseline.sh",
            "source_commits": [],
            "add_only": True,
        },
        "engines": [{"name": n, "path": f"/verif/engines/{n}", "serves_properties": sorted(p), "kind_free_text": "deterministic simulation engine (seeded scheduler/faults over real nri-plugins code)"} for n, p in sorted(engines.items())],
        "checks": checks,
        "not_applicable": na,
        "notes": "Technique: deterministic simulation with fault injection. /verif/known-findings.json lists genuine defects (status known) and repaired ones (status fixed, /repo commits starting with 'fix:'). Exit codes: 0 held, 1 VIOLATION, 2 build/harness trouble.",
    }
    json.dump(m, open("/verif/MANIFEST.json", "w"), indent=1)
    print("MANIFEST.json:", len(checks), "checks,", len(na), "not claimed")

if __name__ == "__main__":
    main()
