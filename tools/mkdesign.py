#!/usr/bin/env python3
"""Regenerates section 13 of DESIGN.md from tools/design13/*.md, known-findings.json and seeded/*/meta.json."""
import json, glob, os
V = '/verif'
k = json.load(open(V + '/known-findings.json'))
groups = {}
for e in k:
    if e['status'] == 'known':
        groups.setdefault(e['what'], []).append(e)
known = []
for what, es in groups.items():
    props = sorted(set(e['property'] for e in es))
    sigs = [('`' + e['signature'] + '`') if e.get('signature') else ('signatures containing `' + e['contains'] + '`') for e in es]
    known.append("* **%s** — %s\n  Listed as: %s." % (", ".join(props), what, "; ".join(sigs)))
fixed = []
for e in k:
    if e['status'] == 'fixed':
        w = e['what']
        if w.startswith('fixed:'):
            w = w.split(' ', 3)[3]
        fixed.append("* `%s` (%s) — %s" % (e['commit'], e['property'], w))
rows = []
for d in sorted(glob.glob(V + '/seeded/*')):
    m = json.load(open(d + '/meta.json'))
    rows.append("| %s | %s | %s |" % (os.path.basename(d), m['needs_to_manifest'].replace('|', '/')[:200], m['what_was_run'].replace('|', '/')))
table = "| change | needs to manifest | result |\n|---|---|---|\n" + "\n".join(rows) + "\n"
rd = lambda n: open(V + '/tools/design13/' + n).read()
sec = rd('sec13_head.md') + "\n".join(fixed) + "\n" + rd('sec13_mid.md') + "\n".join(known) + "\n" + rd('sec13_tail.md') + table + rd('sec13_end.md')
p = V + '/DESIGN.md'
s = open(p).read()
mark = '\n---------------------------------------------------------------------------\n\n## 13. As built'
if mark in s:
    s = s[:s.index(mark)]
open(p, 'w').write(s.rstrip('\n') + '\n' + sec)
print("DESIGN.md section 13: %d fixed, %d known groups, %d seeded changes" % (len(fixed), len(known), len(rows)))
