package main

import (
	"fmt"
	"sort"
	"strings"

	v1 "k8s.io/api/core/v1"
	"k8s.io/apimachinery/pkg/api/resource"
)

type v1ResourceName = v1.ResourceName
type resQuantity = resource.Quantity

// resStrImpl renders resource lists canonically (milli-values, sorted).
func resStrImpl(req, lim map[v1.ResourceName]resource.Quantity) string {
	f := func(m map[v1.ResourceName]resource.Quantity) string {
		ks := make([]string, 0, len(m))
		for k := range m {
			ks = append(ks, string(k))
		}
		sort.Strings(ks)
		var b strings.Builder
		for _, k := range ks {
			q := m[v1.ResourceName(k)]
			fmt.Fprintf(&b, "%s:%d;", k, q.MilliValue())
		}
		return b.String()
	}
	return "{" + f(req) + "|" + f(lim) + "}"
}
