// cachesim (engine E3): pkg/resmgr/cache on the simulated disk. One run is one
// sampled history of cache operations; the engine first executes it fault-free
// (round-trip oracle after every save), then re-executes it once per fs-op
// boundary with a crash there (before, after, torn at several byte offsets)
// and once per boundary with an error instead, and finally tampers with the
// state directory.
package main

import (
	"encoding/json"
	"fmt"
	"os"
	"path/filepath"
	"sort"
	"strings"
	"syscall"

	nri "github.com/containerd/nri/pkg/api"
	"github.com/containers/nri-plugins/pkg/agent/podresapi"
	"github.com/containers/nri-plugins/pkg/resmgr/cache"
	"github.com/containers/nri-plugins/pkg/utils/cpuset"
	"k8s.io/klog/v2"
	podresv1 "k8s.io/kubelet/pkg/apis/podresources/v1"

	"verifh/sim"
	"verifh/verifrt"
)

type PodSpec struct {
	ID          string            `json:"id"`
	Name        string            `json:"name"`
	Namespace   string            `json:"ns"`
	UID         string            `json:"uid"`
	Labels      map[string]string `json:"labels,omitempty"`
	Annotations map[string]string `json:"annotations,omitempty"`
	Cgroup      string            `json:"cgroup,omitempty"`
	PodRes      map[string][]Dev  `json:"podres,omitempty"` // container name -> devices
	HasPodRes   bool              `json:"has_podres,omitempty"`
}

type Dev struct {
	Resource string   `json:"resource"`
	IDs      []string `json:"ids"`
	Nodes    []int64  `json:"nodes,omitempty"`
}

type CtrSpec struct {
	ID          string            `json:"id"`
	Pod         string            `json:"pod"`
	Name        string            `json:"name"`
	State       int               `json:"state"`
	Labels      map[string]string `json:"labels,omitempty"`
	Annotations map[string]string `json:"annotations,omitempty"`
	Args        []string          `json:"args,omitempty"`
	Env         []string          `json:"env,omitempty"`
	Mounts      []MountSpec       `json:"mounts,omitempty"`
	Devices     []DevSpec         `json:"devices,omitempty"`
	Shares      uint64            `json:"shares,omitempty"`
	Quota       int64             `json:"quota,omitempty"`
	Period      uint64            `json:"period,omitempty"`
	MemLimit    int64             `json:"memlimit,omitempty"`
	OomAdj      int64             `json:"oomadj,omitempty"`
	Cpus        string            `json:"cpus,omitempty"`
	Mems        string            `json:"mems,omitempty"`
	NoLinux     bool              `json:"nolinux,omitempty"`
}

type MountSpec struct {
	Dst, Src, Type string
	Options        []string
}
type DevSpec struct {
	Path         string
	Type         string
	Major, Minor int64
}

type Op struct {
	N     int               `json:"n"`
	Kind  string            `json:"kind"`
	Pod   *PodSpec          `json:"pod,omitempty"`
	Ctr   *CtrSpec          `json:"ctr,omitempty"`
	ID    string            `json:"id,omitempty"`
	Key   string            `json:"key,omitempty"`
	Str   string            `json:"str,omitempty"`
	Int   int64             `json:"int,omitempty"`
	Map   map[string]string `json:"map,omitempty"`
	EKind string            `json:"ekind,omitempty"` // policy entry kind
}

type Plan struct {
	Order int  `json:"order"`
	Ops   []Op `json:"ops"`
	// Fault, if set, makes Execute run only this one faulty re-execution
	// (what a minimised replay file carries) instead of enumerating all.
	Fault  *verifrt.FSFault `json:"fault,omitempty"`
	Tamper string           `json:"tamper,omitempty"`
}

func (p *Plan) NumOps() int { return len(p.Ops) }
func (p *Plan) Keep(keep []bool) sim.Plan {
	q := *p
	q.Ops = nil
	for i, o := range p.Ops {
		if keep[i] {
			q.Ops = append(q.Ops, o)
		}
	}
	// a pinned fault index is meaningless after removing ops: enumerate again
	q.Fault = nil
	return &q
}
func (p *Plan) Simplify() []sim.Plan {
	var out []sim.Plan
	if p.Order != 0 {
		q := *p
		q.Order = 0
		out = append(out, &q)
	}
	for i, o := range p.Ops {
		if o.Pod != nil && (len(o.Pod.Labels) > 0 || len(o.Pod.Annotations) > 0 || o.Pod.HasPodRes) {
			q := *p
			q.Ops = append([]Op(nil), p.Ops...)
			ps := *o.Pod
			ps.Labels, ps.Annotations, ps.HasPodRes, ps.PodRes = nil, nil, false, nil
			q.Ops[i].Pod = &ps
			out = append(out, &q)
		}
		if o.Ctr != nil && (len(o.Ctr.Labels) > 0 || len(o.Ctr.Annotations) > 0 || len(o.Ctr.Mounts) > 0 || len(o.Ctr.Devices) > 0 || len(o.Ctr.Env) > 0) {
			q := *p
			q.Ops = append([]Op(nil), p.Ops...)
			cs := *o.Ctr
			cs.Labels, cs.Annotations, cs.Mounts, cs.Devices, cs.Env, cs.Args = nil, nil, nil, nil, nil, nil
			q.Ops[i].Ctr = &cs
			out = append(out, &q)
		}
	}
	return out
}

type engine struct{}

func (engine) Name() string         { return "cachesim" }
func (engine) Properties() []string { return []string{"C10"} }
func (engine) Components() (real, stub []string) {
	return []string{"pkg/resmgr/cache (NewCache, Insert*/Delete*/Set*/policy entries, Snapshot/Restore, Save/Load, checkPerm/mkdirAll)", "kernel file system underneath the shim (real Lstat/rename/modes/symlinks in a scratch directory)"},
		[]string{"os.* calls of pkg/resmgr/cache go through verifrt.FS (decides success / error / partial effect / crash at every fs-op boundary)", "process kill = panic sentinel that makes the instance dead", "clock (ctime) simulated", "map iteration order seeded"}
}
func (engine) Decode(raw json.RawMessage) (sim.Plan, error) {
	var p Plan
	if err := json.Unmarshal(raw, &p); err != nil {
		return nil, err
	}
	return &p, nil
}

const ns = "resource-policy.nri.io"

func (engine) Generate(prop, tier string, seed uint64, faults bool) sim.Plan {
	r := verifrt.NewRand(verifrt.Mix(seed, "gen"))
	p := &Plan{Order: int(verifrt.OrderSeeded)}
	if r.Chance(0.2) {
		p.Order = int(verifrt.OrderCanonical)
	}
	nops := r.Range(6, 22)
	var pods []string
	var podNames = map[string][]string{} // pod id -> container names declared in annotations
	var ctrs []string
	npod, nctr := 0, 0
	strs := []string{"", "a", "x y", "ünï", "{\"k\":1}", "1", "true", "0-3", "a,b", "\"quoted\"", "line1\nline2"}
	mkMap := func(prefix string, max int) map[string]string {
		n := r.Intn(max + 1)
		if n == 0 {
			return nil
		}
		m := map[string]string{}
		for i := 0; i < n; i++ {
			m[fmt.Sprintf("%s%d", prefix, r.Intn(6))] = verifrt.Pick(r, strs)
		}
		return m
	}
	entryKinds := []string{"string", "cpuset", "cpusetmap", "stringmap", "int", "bool", "cacheable", "uint64"}
	for i := 0; i < nops; i++ {
		op := Op{N: i + 1}
		w := []int{14, 22, 18, 6, 6, 5, 5, 8, 8, 4, 4}
		if len(pods) == 0 {
			w[1], w[4] = 0, 0
		}
		if len(ctrs) == 0 {
			w[2], w[3], w[5], w[6] = 0, 0, 0, 0
		}
		switch r.Weighted(w) {
		case 0:
			npod++
			ps := &PodSpec{ID: fmt.Sprintf("pod%d", npod), Name: fmt.Sprintf("p%d", npod), UID: fmt.Sprintf("uid-%d", npod)}
			ps.Namespace = verifrt.Pick(r, []string{"default", "kube-system", "ns1"})
			ps.Labels = mkMap("l", 3)
			ps.Annotations = mkMap("a", 2)
			qos := verifrt.Pick(r, []string{"", "burstable", "besteffort"})
			ps.Cgroup = "/kubepods/" + qos + "/pod" + ps.UID
			if qos == "" {
				ps.Cgroup = "/kubepods/pod" + ps.UID
			}
			if r.Chance(0.1) {
				ps.Cgroup = ""
			}
			names := []string{"c0", "c1", "main"}
			podNames[ps.ID] = names
			if r.Chance(0.5) {
				if ps.Annotations == nil {
					ps.Annotations = map[string]string{}
				}
				switch r.Intn(6) {
				case 0:
					ps.Annotations["affinity."+ns] = "c0: [ c1 ]\n"
				case 1:
					ps.Annotations["anti-affinity."+ns+"/container.c1"] = "- scope:\n    key: pod/name\n    operator: Matches\n    values: [ p* ]\n  match:\n    key: name\n    operator: In\n    values: [ main ]\n  weight: 7\n"
				case 2:
					ps.Annotations["cpu.preserve."+ns+"/pod"] = "true"
				case 3:
					ps.Annotations["memory-type."+ns+"/container.c0"] = "dram,pmem"
				case 4:
					ps.Annotations["rdtclass."+ns] = "gold"
					ps.Annotations["blockioclass."+ns+"/container.main"] = "slow"
				case 5:
					ps.Annotations["affinity."+ns] = "not: [ valid"
				}
			}
			if r.Chance(0.4) {
				ps.HasPodRes = true
				ps.PodRes = map[string][]Dev{}
				for _, n := range names {
					if r.Chance(0.6) {
						d := Dev{Resource: verifrt.Pick(r, []string{"vendor.com/gpu", "vendor.com/nic"}), IDs: []string{fmt.Sprintf("dev%d", r.Intn(4))}}
						for k := r.Intn(3); k > 0; k-- {
							d.Nodes = append(d.Nodes, int64(r.Intn(4)))
						}
						ps.PodRes[n] = append(ps.PodRes[n], d)
					}
				}
			}
			op.Kind, op.Pod = "insert-pod", ps
			pods = append(pods, ps.ID)
		case 1:
			nctr++
			pod := verifrt.Pick(r, pods)
			if r.Chance(0.05) {
				pod = "nonexistent-pod"
			}
			cs := &CtrSpec{ID: fmt.Sprintf("ctr%d", nctr), Pod: pod, Name: verifrt.Pick(r, []string{"c0", "c1", "main"})}
			cs.State = r.Intn(5)
			cs.Labels = mkMap("cl", 2)
			cs.Annotations = mkMap("ca", 2)
			if r.Chance(0.5) {
				cs.Args = []string{"/bin/x", verifrt.Pick(r, strs)}
			}
			if r.Chance(0.5) {
				cs.Env = []string{"A=" + verifrt.Pick(r, strs), "B"}
			}
			for k := r.Intn(3); k > 0; k-- {
				m := MountSpec{Dst: fmt.Sprintf("/mnt/%d", k), Src: fmt.Sprintf("/verif-none/vol%d", r.Intn(4)), Type: "bind"}
				if r.Chance(0.4) {
					m.Options = []string{"ro"}
				}
				if r.Chance(0.3) {
					m.Src = "/etc/hosts"
				}
				cs.Mounts = append(cs.Mounts, m)
			}
			for k := r.Intn(2); k > 0; k-- {
				cs.Devices = append(cs.Devices, DevSpec{Path: "/dev/vf0", Type: "c", Major: 4000 + int64(r.Intn(4)), Minor: int64(r.Intn(3))})
			}
			switch r.Intn(4) {
			case 0: // best effort
				cs.Shares = 2
			case 1:
				cs.Shares = uint64(r.Range(1, 40)) * 102
				cs.Quota, cs.Period = int64(r.Range(1, 40))*10000, 100000
				cs.MemLimit = int64(r.Range(1, 64)) << 20
				cs.OomAdj = int64(r.Range(2, 999))
			case 2:
				cs.Shares = uint64(r.Range(1, 8)) * 1024
				cs.Quota, cs.Period = int64(cs.Shares/1024)*100000, 100000
				cs.MemLimit = int64(r.Range(1, 64)) << 20
				cs.OomAdj = -997
			case 3:
				cs.NoLinux = r.Chance(0.5)
			}
			if r.Chance(0.3) {
				cs.Cpus, cs.Mems = "0-3", "0"
			}
			op.Kind, op.Ctr = "insert-ctr", cs
			if pod != "nonexistent-pod" {
				ctrs = append(ctrs, cs.ID)
			}
		case 2:
			op.Kind = "set"
			op.ID = verifrt.Pick(r, ctrs)
			op.Key = verifrt.Pick(r, []string{"cpus", "mems", "shares", "quota", "period", "memlimit", "swap", "rdt", "blockio", "state", "resupd"})
			op.Str = verifrt.Pick(r, []string{"0", "0-1", "2,4-6", "", "7"})
			op.Int = int64(r.Range(0, 200000))
		case 3:
			op.Kind = "tag"
			op.ID = verifrt.Pick(r, ctrs)
			op.Key = fmt.Sprintf("t%d", r.Intn(3))
			op.Str = verifrt.Pick(r, strs)
			if r.Chance(0.25) {
				op.Kind = "deltag"
			}
		case 4:
			op.Kind, op.ID = "delete-pod", verifrt.Pick(r, pods)
		case 5:
			op.Kind, op.ID = "delete-ctr", verifrt.Pick(r, ctrs)
		case 6:
			op.Kind, op.ID = "query", verifrt.Pick(r, ctrs) // lazily parsed state (affinities)
		case 7:
			op.Kind = "entry"
			op.EKind = verifrt.Pick(r, entryKinds)
			op.Key = "k-" + op.EKind + fmt.Sprint(r.Intn(2))
			op.Str = verifrt.Pick(r, []string{"0-3", "1", "", "5,7", "abc", "x\"y"})
			op.Int = int64(r.Range(-5, 1<<40))
			op.Map = mkMap("m", 3)
		case 8:
			op.Kind = "save"
		case 9:
			op.Kind = "active-policy"
			op.Str = verifrt.Pick(r, []string{"topology-aware", "balloons", ""})
		case 10:
			op.Kind = "restart" // clean restart: reload from disk what was last saved
		}
		p.Ops = append(p.Ops, op)
	}
	// always end with an explicit save so that the final round trip is checked
	p.Ops = append(p.Ops, Op{N: nops + 1, Kind: "save"})
	p.Tamper = verifrt.Pick(r, tamperKinds)
	return p
}

var tamperKinds = []string{"file-symlink", "dir-symlink", "file-is-dir", "file-is-fifo", "file-group-writable", "file-other-writable", "dir-group-writable", "dir-other-writable"}

// ---------------------------------------------------------------------------

// cacheable is a harness Cacheable policy entry.
type cacheable struct {
	A string
	B []int
	C map[string]string
}

func (c *cacheable) Set(v interface{}) {
	switch o := v.(type) {
	case cacheable:
		*c = o
	case *cacheable:
		*c = *o
	}
}
func (c *cacheable) Get() interface{} { return *c }

type inst struct {
	dir     string
	cch     cache.Cache
	vw      *verifrt.World
	fs      *verifrt.FSWorld
	ekinds  map[string]string // policy entry key -> kind
	akeys   map[string]bool   // annotation / label / tag / env keys ever used
	names   map[string]bool
	nolinux map[string]bool
}

func podChan(ps *PodSpec) <-chan *podresapi.PodResources {
	if !ps.HasPodRes {
		return nil
	}
	pr := &podresv1.PodResources{Name: ps.Name, Namespace: ps.Namespace}
	names := make([]string, 0, len(ps.PodRes))
	for n := range ps.PodRes {
		names = append(names, n)
	}
	sort.Strings(names)
	for _, n := range names {
		cr := &podresv1.ContainerResources{Name: n}
		for _, d := range ps.PodRes[n] {
			cd := &podresv1.ContainerDevices{ResourceName: d.Resource, DeviceIds: d.IDs}
			if len(d.Nodes) > 0 {
				cd.Topology = &podresv1.TopologyInfo{}
				for _, id := range d.Nodes {
					cd.Topology.Nodes = append(cd.Topology.Nodes, &podresv1.NUMANode{ID: id})
				}
			}
			cr.Devices = append(cr.Devices, cd)
		}
		pr.Containers = append(pr.Containers, cr)
	}
	ch := make(chan *podresapi.PodResources, 1)
	ch <- &podresapi.PodResources{PodResources: pr}
	return ch
}

func nriPod(ps *PodSpec) *nri.PodSandbox {
	return &nri.PodSandbox{Id: ps.ID, Name: ps.Name, Uid: ps.UID, Namespace: ps.Namespace, Labels: ps.Labels, Annotations: ps.Annotations,
		Linux: &nri.LinuxPodSandbox{CgroupParent: ps.Cgroup}}
}

func nriCtr(cs *CtrSpec) *nri.Container {
	c := &nri.Container{Id: cs.ID, PodSandboxId: cs.Pod, Name: cs.Name, State: nri.ContainerState(cs.State), Labels: cs.Labels, Annotations: cs.Annotations, Args: cs.Args, Env: cs.Env}
	for _, m := range cs.Mounts {
		c.Mounts = append(c.Mounts, &nri.Mount{Destination: m.Dst, Source: m.Src, Type: m.Type, Options: m.Options})
	}
	if !cs.NoLinux {
		c.Linux = &nri.LinuxContainer{Resources: &nri.LinuxResources{}}
		for _, d := range cs.Devices {
			c.Linux.Devices = append(c.Linux.Devices, &nri.LinuxDevice{Path: d.Path, Type: d.Type, Major: d.Major, Minor: d.Minor})
		}
		if cs.Shares != 0 || cs.Quota != 0 || cs.Cpus != "" {
			c.Linux.Resources.Cpu = &nri.LinuxCPU{Cpus: cs.Cpus, Mems: cs.Mems}
			if cs.Shares != 0 {
				c.Linux.Resources.Cpu.Shares = nri.UInt64(cs.Shares)
			}
			if cs.Quota != 0 {
				c.Linux.Resources.Cpu.Quota = nri.Int64(cs.Quota)
				c.Linux.Resources.Cpu.Period = nri.UInt64(cs.Period)
			}
		}
		if cs.MemLimit != 0 {
			c.Linux.Resources.Memory = &nri.LinuxMemory{Limit: nri.Int64(cs.MemLimit)}
		}
		if cs.OomAdj != 0 {
			c.Linux.OomScoreAdj = nri.Int(int(cs.OomAdj))
		}
	}
	return c
}

func (in *inst) note(m map[string]string) {
	for k := range m {
		in.akeys[k] = true
	}
}

// apply executes one op against the live cache.
func (in *inst) apply(op *Op) {
	c := in.cch
	switch op.Kind {
	case "insert-pod":
		in.note(op.Pod.Labels)
		in.note(op.Pod.Annotations)
		c.InsertPod(nriPod(op.Pod), podChan(op.Pod))
	case "insert-ctr":
		in.note(op.Ctr.Labels)
		in.note(op.Ctr.Annotations)
		in.names[op.Ctr.Name] = true
		if op.Ctr.NoLinux {
			in.nolinux[op.Ctr.ID] = true
		}
		if _, ok := c.LookupPod(op.Ctr.Pod); !ok {
			// InsertContainer for an unknown pod is C14's subject (it panics at
			// this commit); not part of C10's histories
			return
		}
		c.InsertContainer(nriCtr(op.Ctr))
	case "set":
		ctr, ok := c.LookupContainer(op.ID)
		if !ok {
			return
		}
		switch op.Key {
		case "cpus":
			ctr.SetCpusetCpus(op.Str)
		case "mems":
			ctr.SetCpusetMems(op.Str)
		case "shares":
			ctr.SetCPUShares(op.Int)
		case "quota":
			ctr.SetCPUQuota(op.Int)
		case "period":
			ctr.SetCPUPeriod(op.Int)
		case "memlimit":
			ctr.SetMemoryLimit(op.Int)
		case "swap":
			ctr.SetMemorySwap(op.Int)
		case "rdt":
			ctr.SetRDTClass(op.Str)
		case "blockio":
			ctr.SetBlockIOClass(op.Str)
		case "state":
			ctr.UpdateState(cache.ContainerState(op.Int % 5))
		case "resupd":
			if in.nolinux[op.ID] {
				// SetResourceUpdates on a container created without Linux
				// resources dereferences nil (C14's subject, not C10's)
				return
			}
			ctr.SetResourceUpdates(&nri.LinuxResources{
				Cpu:    &nri.LinuxCPU{Shares: nri.UInt64(uint64(op.Int%8192 + 2)), Quota: nri.Int64(op.Int % 400000), Period: nri.UInt64(100000)},
				Memory: &nri.LinuxMemory{Limit: nri.Int64(op.Int << 10)},
			})
		}
	case "tag":
		if ctr, ok := c.LookupContainer(op.ID); ok {
			in.akeys[op.Key] = true
			ctr.SetTag(op.Key, op.Str)
		}
	case "deltag":
		if ctr, ok := c.LookupContainer(op.ID); ok {
			ctr.DeleteTag(op.Key)
		}
	case "delete-pod":
		c.DeletePod(op.ID)
	case "delete-ctr":
		c.DeleteContainer(op.ID)
	case "query":
		if ctr, ok := c.LookupContainer(op.ID); ok {
			if _, hasPod := ctr.GetPod(); hasPod {
				ctr.GetAffinity()
			}
			ctr.GetTopologyHints()
		}
	case "entry":
		in.ekinds[op.Key] = op.EKind
		switch op.EKind {
		case "string":
			c.SetPolicyEntry(op.Key, op.Str)
		case "cpuset":
			cs, err := cpuset.Parse(op.Str)
			if err != nil {
				cs = cpuset.New()
			}
			c.SetPolicyEntry(op.Key, cs)
		case "cpusetmap":
			m := map[string]cpuset.CPUSet{}
			for k := range op.Map {
				cs, err := cpuset.Parse(op.Str)
				if err != nil {
					cs = cpuset.New(1)
				}
				m[k] = cs
			}
			c.SetPolicyEntry(op.Key, m)
		case "stringmap":
			m := map[string]string{}
			for k, v := range op.Map {
				m[k] = v
			}
			c.SetPolicyEntry(op.Key, m)
		case "int":
			c.SetPolicyEntry(op.Key, int(op.Int))
		case "uint64":
			c.SetPolicyEntry(op.Key, uint64(op.Int&0x7fffffffffff))
		case "bool":
			c.SetPolicyEntry(op.Key, op.Int%2 == 0)
		case "cacheable":
			c.SetPolicyEntry(op.Key, cacheable{A: op.Str, B: []int{int(op.Int % 100), 3}, C: op.Map})
		}
	case "save":
		c.Save()
	case "active-policy":
		c.SetActivePolicy(op.Str)
	}
}

// obs walks the public getters of every pod, container and policy entry.
func (in *inst) obs(c cache.Cache) string {
	var b strings.Builder
	keys := make([]string, 0, len(in.akeys))
	for k := range in.akeys {
		keys = append(keys, k)
	}
	keys = append(keys, "affinity."+ns, "rdtclass."+ns, "cpu.preserve."+ns+"/pod")
	sort.Strings(keys)
	names := make([]string, 0, len(in.names))
	for n := range in.names {
		names = append(names, n)
	}
	sort.Strings(names)
	j := func(v any) string {
		x, err := json.Marshal(v)
		if err != nil {
			return "ERR:" + err.Error()
		}
		return string(x)
	}
	pods := c.GetPods()
	sort.Slice(pods, func(i, k int) bool { return pods[i].GetID() < pods[k].GetID() })
	fmt.Fprintf(&b, "policy=%q\n", c.GetActivePolicy())
	for _, p := range pods {
		fmt.Fprintf(&b, "POD %s uid=%s name=%s ns=%s qos=%s cg=%q", p.GetID(), p.GetUID(), p.GetName(), p.GetNamespace(), p.GetQOSClass(), p.GetCgroupParent())
		for _, k := range keys {
			if v, ok := p.GetLabel(k); ok {
				fmt.Fprintf(&b, " L[%s]=%q", k, v)
			}
			if v, ok := p.GetAnnotation(k); ok {
				fmt.Fprintf(&b, " A[%s]=%q", k, v)
			}
		}
		if pr := p.GetPodResources(); pr != nil && pr.PodResources != nil {
			fmt.Fprintf(&b, " podres=%s", pr.PodResources.String())
		} else {
			fmt.Fprintf(&b, " podres=nil")
		}
		for _, n := range names {
			aff, err := p.GetContainerAffinity(n)
			fmt.Fprintf(&b, " aff[%s]=%s/%v", n, j(aff), err != nil)
			if v, ok := p.GetEffectiveAnnotation("memory-type."+ns, n); ok {
				fmt.Fprintf(&b, " eff[%s]=%q", n, v)
			}
		}
		b.WriteString("\n")
	}
	ctrs := c.GetContainers()
	sort.Slice(ctrs, func(i, k int) bool { return ctrs[i].GetID() < ctrs[k].GetID() })
	for _, x := range ctrs {
		_, hasPod := x.GetPod()
		fmt.Fprintf(&b, "CTR %s pod=%s(%v) name=%s ns=%s state=%d qos=%s args=%s", x.GetID(), x.GetPodID(), hasPod, x.GetName(), x.GetNamespace(), x.GetState(), x.GetQOSClass(), j(x.GetArgs()))
		for _, k := range keys {
			if v, ok := x.GetLabel(k); ok {
				fmt.Fprintf(&b, " L[%s]=%q", k, v)
			}
			if v, ok := x.GetAnnotation(k, nil); ok {
				fmt.Fprintf(&b, " A[%s]=%q", k, v)
			}
			if v, ok := x.GetTag(k); ok {
				fmt.Fprintf(&b, " T[%s]=%q", k, v)
			}
		}
		for _, k := range []string{"A", "B", "C"} {
			if v, ok := x.GetEnv(k); ok {
				fmt.Fprintf(&b, " E[%s]=%q", k, v)
			}
		}
		for _, m := range x.GetMounts() {
			fmt.Fprintf(&b, " M(%s,%s,%s,%v)", m.Destination, m.Source, m.Type, m.Options)
		}
		for _, d := range x.GetDevices() {
			fmt.Fprintf(&b, " D(%s,%s,%d,%d)", d.Path, d.Type, d.Major, d.Minor)
		}
		rr := x.GetResourceRequirements()
		fmt.Fprintf(&b, " req=%s", resStr(rr.Requests, rr.Limits))
		if ru, ok := x.GetResourceUpdates(); ok {
			fmt.Fprintf(&b, " upd=%s", resStr(ru.Requests, ru.Limits))
		}
		if pr := x.GetPodResources(); pr != nil && pr.ContainerResources != nil {
			fmt.Fprintf(&b, " podres=%s", pr.ContainerResources.String())
		}
		fmt.Fprintf(&b, " hints=%s", j(x.GetTopologyHints()))
		fmt.Fprintf(&b, " cpu=(%d,%d,%d,%q,%q) mem=(%d,%d) rdt=%q bio=%q cgdir=%q", x.GetCPUShares(), x.GetCPUQuota(), x.GetCPUPeriod(), x.GetCpusetCpus(), x.GetCpusetMems(), x.GetMemoryLimit(), x.GetMemorySwap(), x.GetRDTClass(), x.GetBlockIOClass(), x.GetCgroupDir())
		if hasPod {
			aff, err := x.GetAffinity()
			mt, merr := x.MemoryTypes()
			fmt.Fprintf(&b, " aff=%s/%v preserve=(%v,%v) memtypes=%v/%v", j(aff), err != nil, x.PreserveCpuResources(), x.PreserveMemoryResources(), mt, merr != nil)
		}
		b.WriteString("\n")
	}
	ek := make([]string, 0, len(in.ekinds))
	for k := range in.ekinds {
		ek = append(ek, k)
	}
	sort.Strings(ek)
	for _, k := range ek {
		var ok bool
		var val string
		switch in.ekinds[k] {
		case "string":
			var v string
			ok = c.GetPolicyEntry(k, &v)
			val = fmt.Sprintf("%q", v)
		case "cpuset":
			var v cpuset.CPUSet
			ok = c.GetPolicyEntry(k, &v)
			val = v.String()
		case "cpusetmap":
			var v map[string]cpuset.CPUSet
			ok = c.GetPolicyEntry(k, &v)
			mk := make([]string, 0, len(v))
			for x := range v {
				mk = append(mk, x)
			}
			sort.Strings(mk)
			for _, x := range mk {
				val += x + "=" + v[x].String() + ";"
			}
		case "stringmap":
			var v map[string]string
			ok = c.GetPolicyEntry(k, &v)
			val = j(v)
		case "int":
			var v int
			ok = c.GetPolicyEntry(k, &v)
			val = fmt.Sprint(v)
		case "uint64":
			var v uint64
			ok = c.GetPolicyEntry(k, &v)
			val = fmt.Sprint(v)
		case "bool":
			var v bool
			ok = c.GetPolicyEntry(k, &v)
			val = fmt.Sprint(v)
		case "cacheable":
			var v cacheable
			ok = c.GetPolicyEntry(k, &v)
			if len(v.C) == 0 {
				v.C = nil
			}
			val = j(v)
		}
		if ok {
			fmt.Fprintf(&b, "ENTRY %s=%s\n", k, val)
		}
	}
	return b.String()
}

func resStr(req, lim map[v1ResourceName]resQuantity) string { return resStrImpl(req, lim) }

// ---------------------------------------------------------------------------

type runOut struct {
	crashed   bool
	crashOp   verifrt.FSOp
	crashAtOp int      // index into plan ops during which the crash happened
	obsAfter  []string // live observation after each op (base run only)
	saved     []bool   // op i completed a rename onto the cache file
	trace     []verifrt.FSOp
	opOfFs    []int // fs-op number (1-based) -> op index (-1 = NewCache)
	err       error
	fatal     string
	in        *inst
}

type exitPanic struct{ code int }

func opKind(p *Plan, i int) string {
	if i < 0 || i >= len(p.Ops) {
		return "start"
	}
	return p.Ops[i].Kind
}

// runHistory executes the plan in dir with the given faults. observe=true
// records live observations and performs the round-trip probe after saves.
func runHistory(p *Plan, seed uint64, dir string, faults []verifrt.FSFault, observe bool, res *sim.RunResult, step0 int) (out *runOut) {
	out = &runOut{}
	vw := verifrt.NewWorld(seed, verifrt.OrderMode(p.Order))
	fs := vw.NewFS(dir)
	for _, f := range faults {
		fs.Faults[f.At] = f
	}
	in := &inst{dir: dir, vw: vw, fs: fs, ekinds: map[string]string{}, akeys: map[string]bool{}, names: map[string]bool{"c0": true, "c1": true, "main": true}, nolinux: map[string]bool{}}
	out.in = in
	cur := -1
	defer func() {
		out.trace = fs.Trace
		if r := recover(); r != nil {
			if cs, ok := r.(verifrt.CrashSentinel); ok {
				out.crashed = true
				out.crashOp = cs.Op
				out.crashAtOp = cur
				return
			}
			if ep, ok := r.(exitPanic); ok {
				out.fatal = fmt.Sprintf("process exit(%d) through the logger's Fatal during op %d", ep.code, cur)
				return
			}
			// a panic of the code under test while the history runs (the
			// histories avoid the inputs known to panic at this commit)
			out.fatal = fmt.Sprintf("panic during op %d (%s): %v", cur, opKind(p, cur), r)
		}
	}()
	noteFs := func(opIdx int) {
		for len(out.opOfFs) < fs.Ops() {
			out.opOfFs = append(out.opOfFs, opIdx)
		}
	}
	vw.SetRequest("start")
	cch, err := cache.NewCache(cache.Options{CacheDir: dir})
	noteFs(-1)
	if err != nil {
		out.err = err
		return
	}
	in.cch = cch
	for i := range p.Ops {
		cur = i
		op := &p.Ops[i]
		vw.SetRequest(fmt.Sprintf("op%d", op.N))
		before := fs.Ops()
		if op.Kind == "restart" {
			// clean restart: a new instance on the same directory
			ncch, err := cache.NewCache(cache.Options{CacheDir: dir})
			noteFs(i)
			if err != nil {
				out.err = fmt.Errorf("restart at op %d: %w", op.N, err)
				return
			}
			in.cch = ncch
		} else {
			in.apply(op)
			noteFs(i)
		}
		saved := false
		for _, t := range fs.Trace[before:] {
			if t.Kind == "rename" && strings.HasSuffix(t.Path, " -> /cache") {
				saved = true
			}
		}
		out.saved = append(out.saved, saved)
		if observe {
			out.obsAfter = append(out.obsAfter, in.obs(in.cch))
		}
	}
	return
}

// probe loads a new cache instance from dir without faults and observes it.
func probe(in *inst, seed uint64, dir string, order verifrt.OrderMode) (string, error) {
	vw := verifrt.NewWorld(seed^0x5eed, order)
	vw.NewFS(dir)
	defer func() {
		// restore nothing: callers create a new world for the next step
	}()
	var fatal string
	var obs string
	var err error
	func() {
		defer func() {
			if r := recover(); r != nil {
				if ep, ok := r.(exitPanic); ok {
					fatal = fmt.Sprintf("process exit(%d) through the logger's Fatal while loading/reading the cache", ep.code)
					return
				}
				fatal = fmt.Sprintf("panic while loading/reading the cache: %v", r)
			}
		}()
		var c cache.Cache
		c, err = cache.NewCache(cache.Options{CacheDir: dir})
		if err != nil {
			return
		}
		obs = in.obs(c)
	}()
	if fatal != "" {
		return "", fmt.Errorf("%s", fatal)
	}
	return obs, err
}

func copyDir(src, dst string) error {
	return filepath.Walk(src, func(path string, info os.FileInfo, err error) error {
		if err != nil {
			return err
		}
		rel, _ := filepath.Rel(src, path)
		target := filepath.Join(dst, rel)
		if info.IsDir() {
			return os.MkdirAll(target, info.Mode().Perm())
		}
		if info.Mode()&os.ModeSymlink != 0 {
			l, _ := os.Readlink(path)
			return os.Symlink(l, target)
		}
		b, err := os.ReadFile(path)
		if err != nil {
			return err
		}
		return os.WriteFile(target, b, info.Mode().Perm())
	})
}

func firstDiff(a, b string) string {
	la, lb := strings.Split(a, "\n"), strings.Split(b, "\n")
	for i := 0; i < len(la) || i < len(lb); i++ {
		var x, y string
		if i < len(la) {
			x = la[i]
		}
		if i < len(lb) {
			y = lb[i]
		}
		if x != y {
			// narrow to the differing part
			k := 0
			for k < len(x) && k < len(y) && x[k] == y[k] {
				k++
			}
			s := k - 60
			if s < 0 {
				s = 0
			}
			cut := func(z string) string {
				e := k + 120
				if e > len(z) {
					e = len(z)
				}
				if s > len(z) {
					return ""
				}
				return z[s:e]
			}
			return fmt.Sprintf("line %d: ...%s...  VS  ...%s...", i, cut(x), cut(y))
		}
	}
	return "(no difference)"
}

// fieldOf names the kind of content that differs, for signatures.
func fieldOf(a, b string) string {
	la, lb := strings.Split(a, "\n"), strings.Split(b, "\n")
	if len(la) != len(lb) {
		return "object-set"
	}
	for i := range la {
		if la[i] != lb[i] {
			x, y := la[i], lb[i]
			k := 0
			for k < len(x) && k < len(y) && x[k] == y[k] {
				k++
			}
			// walk back to the start of the field token
			s := strings.LastIndex(x[:k], " ")
			tok := x[s+1:]
			if e := strings.IndexAny(tok, "=[("); e >= 0 {
				tok = tok[:e]
			}
			kind := "pod"
			if strings.HasPrefix(x, "CTR") {
				kind = "container"
			} else if strings.HasPrefix(x, "ENTRY") {
				return "policy-entry"
			} else if strings.HasPrefix(x, "policy=") {
				return "active-policy"
			}
			return kind + "." + tok
		}
	}
	return "none"
}

func (e engine) Execute(prop string, plan sim.Plan, seed uint64, res *sim.RunResult) {
	p := plan.(*Plan)
	res.Ops = len(p.Ops)
	res.Sample = p
	klog.OsExit = func(code int) { panic(exitPanic{code}) }
	root, err := os.MkdirTemp("", "verif-cachesim-*")
	if err != nil {
		panic(err)
	}
	defer os.RemoveAll(root)
	order := verifrt.OrderMode(p.Order)
	mkdir := func(name string) string {
		d := filepath.Join(root, name, "state")
		os.MkdirAll(filepath.Dir(d), 0o755)
		return d
	}

	// ---- 1. fault-free base run with round-trip probes
	baseDir := mkdir("base")
	base := runHistory(p, seed, baseDir, nil, true, res, 0)
	if base.fatal != "" || base.err != nil || base.crashed {
		res.Violate("C10", "fault-free-history", "C10 fault-free-history failed", 0, "fault-free history failed: fatal=%q err=%v", base.fatal, base.err)
		res.Digest = "failed"
		return
	}
	nfs := len(base.trace)
	// "the cache file may only ever change by rename"
	for _, t := range base.trace {
		res.Check("rename-only")
		if t.Path == "/cache" && t.Kind != "rename" {
			res.Violate("C10", "rename-only", "C10 rename-only "+t.Kind, 0, "the cache file itself was modified in place by %s (fs-op %d) instead of being replaced by rename", t.Kind, t.N)
		}
	}
	// round trip after every save: re-run the prefix is not needed, the base
	// directory only has the final state; so probe per save needs its own
	// execution: done below as the "crash-after the rename" variants (they
	// reload exactly the state right after that save). The final state:
	res.Check("round-trip")
	pdir := mkdir("probe")
	copyDir(baseDir, pdir)
	final := ""
	if len(base.obsAfter) > 0 {
		final = base.obsAfter[len(base.obsAfter)-1]
	}
	if got, err := probe(base.in, seed, pdir, order); err != nil {
		res.Violate("C10", "round-trip", "C10 round-trip load-error", len(p.Ops)-1, "reloading the cache after a clean save failed: %v", err)
	} else if got != final {
		res.Violate("C10", "round-trip", "C10 round-trip "+fieldOf(final, got), len(p.Ops)-1, "cache reloaded after a clean save differs from the live cache: %s", firstDiff(final, got))
	}
	res.State(sim.Hash64(final))

	// lastSaved[i] = observation persisted by the last completed save before op i
	emptyObs := ""
	{
		// observation of an empty cache with this instance's key sets
		edir := mkdir("empty")
		if o, err := probe(base.in, seed, edir, order); err == nil {
			emptyObs = o
		}
	}
	lastSavedBefore := make([]string, len(p.Ops)+1)
	cur := emptyObs
	for i := range p.Ops {
		lastSavedBefore[i] = cur
		if base.saved[i] {
			cur = base.obsAfter[i]
		}
		if p.Ops[i].Kind == "restart" {
			// after a clean restart the live state is the last saved state
			// (already reflected in obsAfter of later ops)
		}
	}
	lastSavedBefore[len(p.Ops)] = cur

	// ---- 2. faulty re-executions
	type variant struct {
		f verifrt.FSFault
	}
	var variants []variant
	if p.Fault != nil {
		variants = append(variants, variant{*p.Fault})
	} else {
		r := verifrt.NewRand(verifrt.Mix(seed, "fault"))
		for _, t := range base.trace {
			variants = append(variants, variant{verifrt.FSFault{At: t.N, Action: "crash-before"}}, variant{verifrt.FSFault{At: t.N, Action: "crash-after"}})
			if t.Kind == "writefile" || t.Kind == "file.write" {
				offs := map[int]bool{0: true, 1: true, t.Len / 2: true, t.Len - 1: true}
				if t.Len > 4 {
					offs[r.Intn(t.Len)] = true
				}
				ks := make([]int, 0, len(offs))
				for k := range offs {
					if k >= 0 && k <= t.Len {
						ks = append(ks, k)
					}
				}
				sort.Ints(ks)
				for _, k := range ks {
					variants = append(variants, variant{verifrt.FSFault{At: t.N, Action: "torn", Offset: k}})
				}
				variants = append(variants, variant{verifrt.FSFault{At: t.N, Action: "short", Offset: t.Len / 3, Errno: "ENOSPC"}})
			}
			variants = append(variants, variant{verifrt.FSFault{At: t.N, Action: "error", Errno: verifrt.Pick(r, []string{"ENOSPC", "EIO", "EACCES"})}})
		}
	}
	for vi, v := range variants {
		if len(res.Violations) >= 4 {
			break
		}
		dir := mkdir(fmt.Sprintf("v%d", vi))
		out := runHistory(p, seed, dir, []verifrt.FSFault{v.f}, false, res, 0)
		kind := "fs." + v.f.Action
		res.Fault(kind)
		res.Extra["fs-op-boundaries-enumerated"]++
		fsop := verifrt.FSOp{}
		if v.f.At-1 < len(base.trace) && v.f.At >= 1 {
			fsop = base.trace[v.f.At-1]
		}
		opIdx := -1
		if v.f.At-1 < len(base.opOfFs) && v.f.At >= 1 {
			opIdx = base.opOfFs[v.f.At-1]
		}
		where := fmt.Sprintf("%s at fs-op %d (%s %s) during op %d", v.f.Action, v.f.At, fsop.Kind, fsop.Path, opIdx)
		sigWhere := fsop.Kind
		if out.fatal != "" {
			res.Violate("C10", "fault-survivable", "C10 fatal-exit after "+v.f.Action+" "+sigWhere, opIdx, "%s: %s", where, out.fatal)
			continue
		}
		switch {
		case out.crashed:
			// reload on the very same directory
			res.Check("crash-consistent")
			allowedOld := emptyObs
			allowedNew := emptyObs
			if opIdx >= 0 {
				allowedOld = lastSavedBefore[opIdx]
				allowedNew = base.obsAfter[opIdx]
				if !base.saved[opIdx] {
					allowedNew = allowedOld
				}
			}
			got, err := probe(base.in, seed, dir, order)
			if err != nil {
				res.Violate("C10", "crash-consistent", "C10 crash-consistent load-error "+v.f.Action+" "+sigWhere, opIdx, "after %s the state directory no longer loads: %v", where, err)
			} else if got != allowedOld && got != allowedNew {
				res.Violate("C10", "crash-consistent", "C10 crash-consistent neither-old-nor-new "+v.f.Action+" "+sigWhere, opIdx, "after %s the reloaded cache is neither the previous nor the new snapshot: vs previous: %s | vs new: %s", where, firstDiff(allowedOld, got), firstDiff(allowedNew, got))
			}
			if got == allowedNew && got != allowedOld {
				res.Probe("crash-reloaded-new-snapshot")
			} else {
				res.Probe("crash-reloaded-previous-snapshot")
			}
			res.State(sim.Hash64(got, "crash"))
		case out.err != nil:
			// NewCache itself failed because of the injected error: legitimate
			res.Probe("injected-error-refused-start")
		default:
			// the instance survived an injected error: the directory must
			// still hold a complete snapshot, and the final clean save must
			// round-trip
			res.Check("error-consistent")
			cdir := mkdir(fmt.Sprintf("v%dc", vi))
			copyDir(dir, cdir)
			live := out.in.obs(out.in.cch)
			got, err := probe(out.in, seed, cdir, order)
			if err != nil {
				res.Violate("C10", "error-consistent", "C10 error-consistent load-error "+v.f.Action+" "+sigWhere, opIdx, "after %s (instance kept running, history completed) the state directory no longer loads: %v", where, err)
			} else if got != live {
				// the last op is an explicit save, so live == disk unless that
				// very save was the one that failed
				lastSaveFailed := opIdx == len(p.Ops)-1
				if !lastSaveFailed {
					res.Violate("C10", "error-consistent", "C10 error-consistent final-save-differs "+v.f.Action+" "+sigWhere+" "+fieldOf(live, got), opIdx, "after %s and a later successful save, the reloaded cache differs from the live one: %s", where, firstDiff(live, got))
				} else if got != lastSavedBefore[opIdx] {
					res.Violate("C10", "error-consistent", "C10 error-consistent neither-old-nor-new "+v.f.Action+" "+sigWhere, opIdx, "after %s the directory holds neither the previous nor the new snapshot: %s", where, firstDiff(lastSavedBefore[opIdx], got))
				}
			}
			res.Probe("instance-survived-injected-error")
			os.RemoveAll(filepath.Dir(cdir))
		}
		os.RemoveAll(filepath.Dir(dir))
	}

	// ---- 3. tampering with the state directory
	if p.Fault == nil && len(res.Violations) == 0 {
		kinds := []string{p.Tamper}
		if p.Tamper == "" {
			kinds = tamperKinds
		}
		for _, k := range kinds {
			tdir := mkdir("tamper-" + k)
			copyDir(baseDir, tdir)
			file := filepath.Join(tdir, "cache")
			useDir := tdir
			ok := true
			switch k {
			case "file-symlink":
				os.Rename(file, file+".real")
				ok = os.Symlink(file+".real", file) == nil
			case "dir-symlink":
				real := tdir + ".real"
				os.Rename(tdir, real)
				ok = os.Symlink(real, tdir) == nil
			case "file-is-dir":
				os.Remove(file)
				ok = os.Mkdir(file, 0o755) == nil
			case "file-is-fifo":
				os.Remove(file)
				ok = syscall.Mkfifo(file, 0o644) == nil
			case "file-group-writable":
				ok = os.Chmod(file, 0o664) == nil
			case "file-other-writable":
				ok = os.Chmod(file, 0o646) == nil
			case "dir-group-writable":
				ok = os.Chmod(tdir, 0o730) == nil
			case "dir-other-writable":
				ok = os.Chmod(tdir, 0o712) == nil
			}
			if !ok {
				res.Extra["tamper-setup-failed"]++
				continue
			}
			res.Fault("statedir.tamper/" + k)
			res.Check("tamper-refused")
			verifrt.NewWorld(seed^0x7a, order).NewFS(useDir)
			var lerr error
			func() {
				defer func() {
					if r := recover(); r != nil {
						lerr = fmt.Errorf("panic/exit: %v", r)
					}
				}()
				_, lerr = cache.NewCache(cache.Options{CacheDir: useDir})
			}()
			if lerr == nil {
				res.Violate("C10", "tamper-refused", "C10 tamper-refused "+k, len(p.Ops), "state directory tampered with (%s) was accepted by NewCache instead of being refused", k)
			}
		}
	}

	nsaves := 0
	for _, s := range base.saved {
		if s {
			nsaves++
		}
	}
	res.Extra["saves"] += nsaves
	res.Extra["fs-ops"] += nfs
	res.Nontrivial = nsaves >= 2
	h := sim.Hash64(strings.Join(base.obsAfter, "\x00"))
	res.Digest = fmt.Sprintf("%016x", h)
}

func main() { sim.Main(engine{}) }
