// memsim (engine E2): libmem alone. K simulated clients share one real
// Allocator built from generated nodes; offers are in-flight two-phase
// operations that the seeded scheduler commits arbitrarily late or never.
// Only libmem's public API is used.
package main

import (
	"encoding/json"
	"errors"
	"fmt"
	"os"
	"sort"
	"strings"

	libmem "github.com/containers/nri-plugins/pkg/resmgr/lib/memory"
	"github.com/containers/nri-plugins/pkg/utils/cpuset"

	"verifh/sim"
	"verifh/verifrt"
)

type NodeSpec struct {
	ID     int   `json:"id"`
	Type   int   `json:"type"` // 0 DRAM 1 PMEM 2 HBM
	Cap    int64 `json:"cap"`
	Normal bool  `json:"normal"`
	CPUs   []int `json:"cpus,omitempty"`
	Dist   []int `json:"dist"`
}

type ReqSpec struct {
	ID       string `json:"id"`
	Size     int64  `json:"size"`
	Affinity uint64 `json:"aff"`
	Types    int    `json:"types,omitempty"`
	Strict   bool   `json:"strict,omitempty"`
	Prio     string `json:"prio"` // besteffort burstable guaranteed preserved reservation default
}

type Op struct {
	N       int      `json:"n"` // stable op id
	Kind    string   `json:"kind"`
	Client  int      `json:"client"`
	Req     *ReqSpec `json:"req,omitempty"`
	Ref     int      `json:"ref,omitempty"`    // op id of the offer to commit
	Target  string   `json:"target,omitempty"` // request id for realloc/release
	Aff     uint64   `json:"raff,omitempty"`
	Types   int      `json:"rtypes,omitempty"`
	Comment string   `json:"-"`
}

type Plan struct {
	Nodes        []NodeSpec `json:"nodes"`
	CustomExpand int        `json:"custom_expand,omitempty"` // 0 default, 1 = one node at a time by id order, 2 = default via custom hook
	Order        int        `json:"order"`                   // verifrt.OrderMode
	Ops          []Op       `json:"ops"`
}

func (p *Plan) NumOps() int { return len(p.Ops) }
func (p *Plan) Keep(keep []bool) sim.Plan {
	q := *p
	q.Ops = nil
	for i, o := range p.Ops {
		if keep[i] {
			q.Ops = append(q.Ops, o)
		}
	}
	return &q
}
func (p *Plan) Simplify() []sim.Plan {
	var out []sim.Plan
	if p.CustomExpand != 0 {
		q := *p
		q.CustomExpand = 0
		out = append(out, &q)
	}
	if p.Order != int(verifrt.OrderCanonical) {
		q := *p
		q.Order = int(verifrt.OrderCanonical)
		out = append(out, &q)
	}
	// simpler requests: drop types/strictness, default priority
	for i, o := range p.Ops {
		if o.Req == nil {
			continue
		}
		if o.Req.Types != 0 || o.Req.Strict {
			q := *p
			q.Ops = append([]Op(nil), p.Ops...)
			r := *o.Req
			r.Types, r.Strict = 0, false
			q.Ops[i].Req = &r
			out = append(out, &q)
		}
		if o.Req.Prio != "burstable" {
			q := *p
			q.Ops = append([]Op(nil), p.Ops...)
			r := *o.Req
			r.Prio = "burstable"
			q.Ops[i].Req = &r
			out = append(out, &q)
		}
	}
	return out
}

type engine struct{}

func (engine) Name() string         { return "memsim" }
func (engine) Properties() []string { return []string{"C06", "C07"} }
func (engine) Components() (real, stub []string) {
	return []string{"pkg/resmgr/lib/memory (Allocator, offers, journal, overcommit handling, zone expansion) through its public API"},
		[]string{"clock (request age) = simulated", "map iteration order = seeded", "clients = simulated tasks issuing one operation per scheduler step"}
}
func (engine) Decode(raw json.RawMessage) (sim.Plan, error) {
	var p Plan
	if err := json.Unmarshal(raw, &p); err != nil {
		return nil, err
	}
	return &p, nil
}

const unit = int64(1 << 20)

var traceOps = os.Getenv("VERIF_TRACE") != ""

func (engine) Generate(prop, tier string, seed uint64, faults bool) sim.Plan {
	r := verifrt.NewRand(verifrt.Mix(seed, "gen"))
	p := &Plan{}
	// --- nodes
	n := r.Range(2, 8)
	if r.Chance(0.15) {
		n = 1 + r.Intn(2)
	}
	shape := r.Intn(4) // 0 random, 1 line, 2 ring, 3 two-level
	for i := 0; i < n; i++ {
		ns := NodeSpec{ID: i, Normal: true}
		switch {
		case i == 0:
			ns.Type = 0
		case r.Chance(0.55):
			ns.Type = 0
		case r.Chance(0.6):
			ns.Type = 1
		default:
			ns.Type = 2
		}
		ns.Cap = int64(r.Range(1, 16)) * 4 * unit
		if r.Chance(0.1) {
			ns.Cap = int64(r.Range(1, 3)) * unit
		}
		if i > 0 && r.Chance(0.2) {
			ns.Normal = false // movable-only
		}
		if i > 0 && r.Chance(0.05) {
			ns.Cap = 0 // memory-less
		}
		if ns.Type == 0 && r.Chance(0.8) || ns.Type != 0 && r.Chance(0.1) {
			ns.CPUs = []int{2 * i, 2*i + 1}
		}
		p.Nodes = append(p.Nodes, ns)
	}
	dvals := []int{11, 12, 16, 17, 21, 28, 31}
	d := make([][]int, n)
	for i := range d {
		d[i] = make([]int, n)
	}
	for i := 0; i < n; i++ {
		for j := i + 1; j < n; j++ {
			var v int
			switch shape {
			case 1:
				v = 10 + 5*(j-i)
			case 2:
				k := j - i
				if n-k < k {
					k = n - k
				}
				v = 10 + 6*k
			case 3:
				if i/2 == j/2 {
					v = 12
				} else {
					v = 21
				}
			default:
				v = verifrt.Pick(r, dvals)
			}
			d[i][j], d[j][i] = v, v
			if shape == 0 && r.Chance(0.15) { // asymmetric (curated vectors)
				d[j][i] = verifrt.Pick(r, dvals)
			}
		}
		d[i][i] = 10
	}
	for i := range p.Nodes {
		p.Nodes[i].Dist = d[i]
	}
	if r.Chance(0.15) {
		p.CustomExpand = 1 + r.Intn(2)
	}
	switch r.Intn(4) {
	case 0:
		p.Order = int(verifrt.OrderCanonical)
	default:
		p.Order = int(verifrt.OrderSeeded)
	}
	// --- ops
	clients := r.Range(2, 5)
	nops := r.Range(10, 60)
	if tier == "quick" {
		nops = r.Range(8, 40)
	}
	var totalCap int64
	for _, ns := range p.Nodes {
		totalCap += ns.Cap
	}
	type offer struct{ op, client int }
	var openOffers []offer
	var ids []string
	nextID := 0
	prios := []string{"besteffort", "burstable", "burstable", "guaranteed", "guaranteed", "preserved", "reservation", "default"}
	mkReq := func() *ReqSpec {
		nextID++
		q := &ReqSpec{ID: fmt.Sprintf("c%d", nextID)}
		if len(ids) > 0 && r.Chance(0.04) {
			q.ID = verifrt.Pick(r, ids) // duplicate id: must fail
		}
		nd := p.Nodes[r.Intn(n)]
		switch r.Intn(8) {
		case 0:
			q.Size = 0
		case 1, 2:
			q.Size = int64(r.Range(1, 8)) * unit
		case 3, 4:
			q.Size = nd.Cap/2 + int64(r.Range(-2, 2))*unit
		case 5:
			q.Size = nd.Cap + int64(r.Range(-1, 1))*unit
		case 6:
			q.Size = totalCap / int64(r.Range(2, 6))
		default:
			q.Size = nd.Cap / int64(r.Range(2, 5))
		}
		if q.Size < 0 {
			q.Size = 0
		}
		q.Affinity = 1 << uint(nd.ID)
		if r.Chance(0.2) {
			q.Affinity |= 1 << uint(r.Intn(n))
		}
		if r.Chance(0.03) {
			q.Affinity |= 1 << uint(n+r.Intn(3)) // unknown node: must fail
		}
		if r.Chance(0.02) {
			q.Affinity = 0 // must fail
		}
		if r.Chance(0.35) {
			q.Types = 1 + r.Intn(7)
			q.Strict = r.Chance(0.4)
		}
		q.Prio = verifrt.Pick(r, prios)
		ids = append(ids, q.ID)
		return q
	}
	for i := 0; i < nops; i++ {
		op := Op{N: i + 1, Client: r.Intn(clients)}
		w := []int{30, 22, 16, 10, 18, 1}
		if len(openOffers) == 0 {
			w[2] = 0
		}
		if len(ids) == 0 {
			w[3], w[4] = 0, 0
		}
		switch r.Weighted(w) {
		case 0:
			op.Kind = "alloc"
			op.Req = mkReq()
		case 1:
			op.Kind = "offer"
			op.Req = mkReq()
			openOffers = append(openOffers, offer{op.N, op.Client})
		case 2:
			op.Kind = "commit"
			k := r.Intn(len(openOffers))
			// bias to the most recent offer (fresh commits) half of the time
			if r.Chance(0.5) {
				k = len(openOffers) - 1
			}
			op.Ref = openOffers[k].op
			op.Client = openOffers[k].client
			if r.Chance(0.8) {
				openOffers = append(openOffers[:k], openOffers[k+1:]...)
			} // else: the same offer may be committed twice
		case 3:
			op.Kind = "realloc"
			op.Target = verifrt.Pick(r, ids)
			if r.Chance(0.7) {
				op.Aff = 1 << uint(r.Intn(n))
			}
			if r.Chance(0.15) {
				op.Aff |= 1 << uint(r.Intn(n))
			}
			if r.Chance(0.5) {
				op.Types = 1 + r.Intn(7)
			}
		case 4:
			op.Kind = "release"
			op.Target = verifrt.Pick(r, ids)
		case 5:
			op.Kind = "reset"
		}
		p.Ops = append(p.Ops, op)
	}
	return p
}

// ---------------------------------------------------------------------------

type reqInfo struct {
	id     string
	size   int64
	zone   libmem.NodeMask
	prio   libmem.Priority
	types  libmem.TypeMask
	strict bool
}

type observation struct {
	assigned map[string]libmem.NodeMask // every id ever used that currently has an assignment
	requests map[string]reqInfo
	usage    map[libmem.NodeMask]int64
}

func (o *observation) String() string {
	var b strings.Builder
	ids := make([]string, 0, len(o.assigned))
	for id := range o.assigned {
		ids = append(ids, id)
	}
	sort.Strings(ids)
	for _, id := range ids {
		fmt.Fprintf(&b, "A %s=%s;", id, o.assigned[id])
	}
	ids = ids[:0]
	for id := range o.requests {
		ids = append(ids, id)
	}
	sort.Strings(ids)
	for _, id := range ids {
		q := o.requests[id]
		fmt.Fprintf(&b, "R %s size=%d zone=%s prio=%d;", id, q.size, q.zone, q.prio)
	}
	zs := make([]libmem.NodeMask, 0, len(o.usage))
	for z := range o.usage {
		zs = append(zs, z)
	}
	sort.Slice(zs, func(i, j int) bool { return zs[i] < zs[j] })
	for _, z := range zs {
		fmt.Fprintf(&b, "U %s=%d;", z, o.usage[z])
	}
	return b.String()
}

type world struct {
	a       *libmem.Allocator
	plan    *Plan
	allIDs  map[string]bool
	zones   map[libmem.NodeMask]bool
	nodes   map[int]NodeSpec
	allMask libmem.NodeMask
}

func newWorld(p *Plan) (*world, error) {
	w := &world{plan: p, allIDs: map[string]bool{}, zones: map[libmem.NodeMask]bool{}, nodes: map[int]NodeSpec{}}
	var nodes []*libmem.Node
	for _, ns := range p.Nodes {
		n, err := libmem.NewNode(ns.ID, libmem.Type(ns.Type), ns.Cap, ns.Normal, cpuset.New(ns.CPUs...), ns.Dist)
		if err != nil {
			return nil, err
		}
		nodes = append(nodes, n)
		w.nodes[ns.ID] = ns
		w.allMask |= libmem.NewNodeMask(ns.ID)
		w.zones[libmem.NewNodeMask(ns.ID)] = true
	}
	w.zones[w.allMask] = true
	opts := []libmem.AllocatorOption{libmem.WithNodes(nodes)}
	switch p.CustomExpand {
	case 1:
		// custom expansion order: the lowest-numbered node of an allowed type
		// not yet in the zone, one at a time
		opts = append(opts, libmem.WithCustomFunctions(&libmem.CustomFunctions{
			ExpandZone: func(zone libmem.NodeMask, types libmem.TypeMask, ca libmem.CustomAllocator) libmem.NodeMask {
				ns := ca.GetNodes()
				sort.Slice(ns, func(i, j int) bool { return ns[i].ID() < ns[j].ID() })
				for _, n := range ns {
					if zone.Contains(n.ID()) || !n.HasMemory() {
						continue
					}
					if types.Contains(n.Type()) {
						return libmem.NewNodeMask(n.ID())
					}
				}
				return 0
			},
		}))
	case 2:
		opts = append(opts, libmem.WithCustomFunctions(&libmem.CustomFunctions{
			ExpandZone: func(zone libmem.NodeMask, types libmem.TypeMask, ca libmem.CustomAllocator) libmem.NodeMask {
				return ca.DefaultExpandZone(zone, types)
			},
			HandleOvercommit: func(oc map[libmem.NodeMask]int64, ca libmem.CustomAllocator) error {
				return ca.DefaultHandleOvercommit(oc)
			},
		}))
	}
	a, err := libmem.NewAllocator(opts...)
	if err != nil {
		return nil, err
	}
	w.a = a
	return w, nil
}

func (w *world) observe() *observation {
	o := &observation{assigned: map[string]libmem.NodeMask{}, requests: map[string]reqInfo{}, usage: map[libmem.NodeMask]int64{}}
	for id := range w.allIDs {
		if z, ok := w.a.AssignedZone(id); ok {
			o.assigned[id] = z
		}
	}
	w.a.ForeachRequest(nil, func(q *libmem.Request) bool {
		o.requests[q.ID()] = reqInfo{id: q.ID(), size: q.Size(), zone: q.Zone(), prio: q.Priority(), types: q.Types(), strict: q.IsStrict()}
		return true
	})
	for z := range w.zones {
		o.usage[z] = w.a.ZoneUsage(z)
	}
	return o
}

func (w *world) capOf(z libmem.NodeMask) int64 {
	var c int64
	for _, id := range z.Slice() {
		if ns, ok := w.nodes[id]; ok {
			c += ns.Cap
		}
	}
	return c
}

func (w *world) mkRequest(q *ReqSpec) *libmem.Request {
	var opts []libmem.RequestOption
	if q.Types != 0 {
		if q.Strict {
			opts = append(opts, libmem.WithStrictTypes(libmem.TypeMask(q.Types)))
		} else {
			opts = append(opts, libmem.WithPreferredTypes(libmem.TypeMask(q.Types)))
		}
	}
	switch q.Prio {
	case "besteffort", "burstable", "guaranteed":
		opts = append(opts, libmem.WithQosClass(q.Prio))
	case "preserved":
		opts = append(opts, libmem.WithPriority(libmem.Preserved))
	case "reservation":
		opts = append(opts, libmem.WithPriority(libmem.Reservation))
	}
	return libmem.NewRequest(q.ID, q.Size, libmem.NodeMask(q.Affinity), opts...)
}

type offerRec struct {
	offer   *libmem.Offer
	req     *ReqSpec
	key     string // map-order key under which the offer was computed
	stale   string // "" = fresh; else the kind of the first intervening state change
	staleOp int
}

func updStr(u map[string]libmem.NodeMask) string {
	ids := make([]string, 0, len(u))
	for id := range u {
		ids = append(ids, id)
	}
	sort.Strings(ids)
	var b strings.Builder
	for _, id := range ids {
		fmt.Fprintf(&b, "%s=%s;", id, u[id])
	}
	return b.String()
}

func (e engine) Execute(prop string, plan sim.Plan, seed uint64, res *sim.RunResult) {
	p := plan.(*Plan)
	vw := verifrt.NewWorld(seed, verifrt.OrderMode(p.Order))
	res.Ops = len(p.Ops)
	res.Sample = p
	w, err := newWorld(p)
	if err != nil {
		// invalid generated node set: not a run
		res.Extra["invalid-plan"]++
		res.Digest = "invalid"
		return
	}
	twin, err := newWorld(p)
	if err != nil {
		panic(err)
	}
	twinOK := true
	corrupt := false
	offers := map[int]*offerRec{}
	asked := map[string]libmem.TypeMask{} // types a caller explicitly added by Realloc, per id
	c06 := prop == "C06"
	c07 := prop == "C07"
	changes := 0

	markStale := func(kind string, n int) {
		for _, o := range offers {
			if o.stale == "" {
				o.stale, o.staleOp = kind, n
			}
		}
	}

	// placement oracle after a successful state-changing op
	checkPlacement := func(step int, kind string, before, after *observation, requester string, zone libmem.NodeMask, updates map[string]libmem.NodeMask, isRealloc bool) {
		if !c07 {
			return
		}
		// (g) update map == exactly the changed set
		res.Check("updates-exact")
		changed := map[string]libmem.NodeMask{}
		for id, z := range after.assigned {
			if id == requester {
				continue
			}
			if bz, ok := before.assigned[id]; ok && bz != z {
				changed[id] = z
			}
		}
		if updStr(changed) != updStr(updates) {
			missing, spurious := []string{}, []string{}
			for id := range changed {
				if _, ok := updates[id]; !ok {
					missing = append(missing, id)
				}
			}
			for id, z := range updates {
				if cz, ok := changed[id]; !ok {
					spurious = append(spurious, id)
				} else if cz != z {
					spurious = append(spurious, id+"(wrong zone)")
				}
			}
			what := "spurious"
			if len(missing) > 0 {
				what = "missing"
			}
			res.Violate("C07", "updates-exact", "C07 updates-exact "+kind+" "+what, step,
				"%s: reported updates {%s} but assignments that changed are {%s}", kind, updStr(updates), updStr(changed))
		}
		if len(changed) > 0 {
			res.Probe("overcommit-moved-request")
		}
		// requester's returned zone is its assignment
		if az, ok := after.assigned[requester]; !ok || az != zone {
			res.Violate("C07", "returned-zone", "C07 returned-zone "+kind, step, "%s returned zone %s for %s but AssignedZone is %s (present=%v)", kind, zone, requester, az, ok)
		}
		// (d,e) monotone moves, reservations never move
		for id, bz := range before.assigned {
			az, ok := after.assigned[id]
			if !ok {
				if id != requester {
					res.Violate("C07", "allocation-vanished", "C07 allocation-vanished "+kind, step, "%s: %s lost its assignment", kind, id)
				}
				continue
			}
			if az == bz {
				continue
			}
			res.Check("monotone-move")
			if az&bz != bz {
				res.Violate("C07", "monotone-move", "C07 monotone-move "+kind, step, "%s: %s moved from %s to %s, not a superset", kind, id, bz, az)
			}
			if id != requester && before.requests[id].prio == libmem.Reservation {
				res.Violate("C07", "reservation-moved", "C07 reservation-moved "+kind, step, "%s: reservation %s moved from %s to %s", kind, id, bz, az)
			}
		}
		// (f) realloc result is a superset of the previous zone
		if isRealloc {
			res.Check("realloc-superset")
			if bz := before.assigned[requester]; zone&bz != bz {
				res.Violate("C07", "realloc-superset", "C07 realloc-superset", step, "realloc of %s: %s -> %s removes nodes", requester, bz, zone)
			}
		}
		// (b) strict types, (c) normal memory in every newly assigned zone
		var normal, hasMem libmem.NodeMask
		for _, ns := range p.Nodes {
			if ns.Normal && ns.Cap > 0 {
				normal |= libmem.NewNodeMask(ns.ID)
			}
			if ns.Cap > 0 {
				hasMem |= libmem.NewNodeMask(ns.ID)
			}
		}
		for id, az := range after.assigned {
			bz, had := before.assigned[id]
			if had && bz == az {
				continue
			}
			res.Check("normal-memory")
			if az&normal == 0 {
				res.Violate("C07", "normal-memory", "C07 normal-memory "+kind, step, "%s: %s newly assigned zone %s has no normal-memory node", kind, id, az)
			}
			q := after.requests[id]
			if q.strict {
				res.Check("strict-types")
				var allowed libmem.NodeMask
				for _, ns := range p.Nodes {
					if (q.types | asked[id]).Contains(libmem.Type(ns.Type)) {
						allowed |= libmem.NewNodeMask(ns.ID)
					}
				}
				if az&^allowed != 0 {
					res.Violate("C07", "strict-types", "C07 strict-types "+kind, step, "%s: strict %s request %s assigned %s with nodes of other types", kind, q.types, id, az)
				}
			}
		}
		// (a) capacity of assigned zones and of their unions, computed
		// independently of the allocator's own accounting
		zset := map[libmem.NodeMask]bool{}
		for _, z := range after.assigned {
			zset[z] = true
		}
		zs := make([]libmem.NodeMask, 0, len(zset))
		for z := range zset {
			zs = append(zs, z)
		}
		sort.Slice(zs, func(i, j int) bool { return zs[i] < zs[j] })
		if len(zs) > 12 {
			zs = zs[:12]
		}
		confined := func(u libmem.NodeMask) int64 {
			var used int64
			for _, q := range after.requests {
				if q.zone&u == q.zone {
					used += q.size
				}
			}
			return used
		}
		// single assigned zones first: that is the allocator's own invariant
		zoneBroken := false
		for _, z := range zs {
			res.Check("capacity")
			if used, c := confined(z), w.capOf(z); used > c {
				res.Violate("C07", "capacity", "C07 capacity zone", step, "after %s: allocations confined to assigned zone %s total %d > capacity %d", kind, z, used, c)
				zoneBroken = true
				break
			}
		}
		seen := map[libmem.NodeMask]bool{}
		for m := 1; !zoneBroken && m < 1<<uint(len(zs)); m++ {
			var u libmem.NodeMask
			nz := 0
			for i, z := range zs {
				if m&(1<<uint(i)) != 0 {
					u |= z
					nz++
				}
			}
			if nz < 2 || seen[u] || zset[u] {
				continue
			}
			seen[u] = true
			res.Check("capacity")
			if used, c := confined(u), w.capOf(u); used > c {
				res.Violate("C07", "capacity", "C07 capacity union-of-zones", step, "after %s: every assigned zone fits its own capacity, but allocations confined to the union %s of assigned zones total %d > capacity %d", kind, u, used, c)
				break
			}
		}
	}

	for step, op := range p.Ops {
		opKey := fmt.Sprintf("op%d", op.N)
		vw.SetRequest(opKey)
		before := w.observe()
		bs := before.String()
		if traceOps {
			b, _ := json.Marshal(op)
			fmt.Fprintf(os.Stderr, "TRACE state %s\nTRACE op %s\n", bs, b)
		}
		var tbs string
		if twinOK {
			tbs = twin.observe().String()
			if tbs != bs {
				if c06 {
					res.Violate("C06", "offer-leaves-state", "C06 offer-leaves-state observable-later", step, "allocator that saw GetOffer calls differs from a twin that never did, before op %d:\n main %s\n twin %s", op.N, bs, tbs)
				}
				twinOK = false
			}
		}
		track := func(z libmem.NodeMask, u map[string]libmem.NodeMask) {
			if z != 0 {
				w.zones[z], twin.zones[z] = true, true
			}
			for _, uz := range u {
				w.zones[uz], twin.zones[uz] = true, true
			}
		}
		switch op.Kind {
		case "alloc":
			w.allIDs[op.Req.ID], twin.allIDs[op.Req.ID] = true, true
			vw.SetRequest(opKey)
			zone, upd, err := w.a.Allocate(w.mkRequest(op.Req))
			var tz libmem.NodeMask
			var tu map[string]libmem.NodeMask
			var terr error
			if twinOK {
				vw.SetRequest(opKey)
				tz, tu, terr = twin.a.Allocate(twin.mkRequest(op.Req))
			}
			track(zone, upd)
			after := w.observe()
			if err != nil {
				res.Fault("alloc.fail")
				if c06 {
					res.Check("failed-op-leaves-state")
					if as := after.String(); as != bs {
						res.Violate("C06", "failed-op-leaves-state", "C06 failed-op-leaves-state alloc", step, "failed Allocate(%s) changed state:\n before %s\n after  %s", op.Req.ID, bs, as)
					}
				}
			} else {
				changes++
				markStale("alloc", op.N)
				checkPlacement(step, "alloc", before, after, op.Req.ID, zone, upd, false)
			}
			if twinOK && c06 {
				res.Check("deterministic-outcome")
				if (err == nil) != (terr == nil) || zone != tz || updStr(upd) != updStr(tu) {
					res.Violate("C06", "offer-leaves-state", "C06 offer-leaves-state later-alloc-differs", step, "Allocate(%s) gives (%s,{%s},%v) on the allocator that served GetOffer calls earlier, but (%s,{%s},%v) on a twin with the same committed history that never served an offer (same map orders): requesting offers changed allocator state", op.Req.ID, zone, updStr(upd), err, tz, updStr(tu), terr)
					twinOK = false
				}
			}
		case "offer":
			w.allIDs[op.Req.ID], twin.allIDs[op.Req.ID] = true, true
			vw.SetRequest(opKey)
			o, err := w.a.GetOffer(w.mkRequest(op.Req))
			after := w.observe()
			if c06 {
				res.Check("offer-leaves-state")
				if as := after.String(); as != bs {
					res.Violate("C06", "offer-leaves-state", "C06 offer-leaves-state", step, "GetOffer(%s) (err=%v) changed state:\n before %s\n after  %s", op.Req.ID, err, bs, as)
				}
			}
			if err != nil {
				res.Fault("offer.fail")
			} else {
				// the twin never sees offers: the property says requesting an
				// offer never changes allocator state
				rec := &offerRec{offer: o, req: op.Req, key: opKey}
				offers[op.N] = rec
				track(o.NodeMask(), o.Updates())
			}
		case "commit":
			rec, ok := offers[op.Ref]
			if !ok {
				res.Extra["commit-without-offer"]++
				continue
			}
			zone, upd, err := rec.offer.Commit()
			track(zone, upd)
			after := w.observe()
			if err != nil {
				if rec.stale != "" {
					res.Fault("offer.stale-refused")
				} else {
					res.Fault("commit.fail")
				}
				if c06 {
					res.Check("failed-op-leaves-state")
					if as := after.String(); as != bs {
						res.Violate("C06", "failed-op-leaves-state", "C06 failed-op-leaves-state commit", step, "failed Commit(%s) changed state:\n before %s\n after  %s", rec.req.ID, bs, as)
					}
					if rec.stale == "" {
						// the property does not say a fresh offer must be accepted
						// (a duplicate id may have arrived through another path);
						// counted, not judged
						res.Extra["fresh-commit-refused"]++
					}
				}
			} else {
				changes++
				if rec.stale != "" {
					res.Probe("offer-committed-after-intervening-" + rec.stale)
					if c06 {
						res.Check("stale-offer-refused")
						res.Violate("C06", "stale-offer-refused", "C06 stale-offer-refused after="+rec.stale, step,
							"offer for %s taken at op %d was committed successfully although a successful %s (op %d) happened in between", rec.req.ID, op.Ref, rec.stale, rec.staleOp)
					}
					twinOK = false
					corrupt = true
				} else {
					res.Probe("fresh-offer-committed")
					if c06 {
						res.Check("stale-offer-refused")
					}
					// differential: the twin allocates the same request directly
					if twinOK {
						// same map-order key as the GetOffer that computed the offer
						vw.SetRequest(rec.key)
						tz, tu, terr := twin.a.Allocate(twin.mkRequest(rec.req))
						if c06 {
							res.Check("commit-equals-allocate")
							if terr != nil || tz != zone || updStr(tu) != updStr(upd) {
								res.Violate("C06", "commit-equals-allocate", "C06 commit-equals-allocate result", step,
									"committing a fresh offer for %s gave (%s,{%s}) but allocating directly gives (%s,{%s},%v)", rec.req.ID, zone, updStr(upd), tz, updStr(tu), terr)
								twinOK = false
							} else if ts, as := twin.observe().String(), after.String(); ts != as {
								res.Violate("C06", "commit-equals-allocate", "C06 commit-equals-allocate state", step,
									"state after committing a fresh offer for %s differs from state after allocating directly:\n commit   %s\n allocate %s", rec.req.ID, as, ts)
								twinOK = false
							}
						}
					}
				}
				checkPlacement(step, "commit", before, after, rec.req.ID, zone, upd, false)
				delete(offers, op.Ref)
				markStale("commit", op.N)
			}
		case "realloc":
			vw.SetRequest(opKey)
			zone, upd, err := w.a.Realloc(op.Target, libmem.NodeMask(op.Aff), libmem.TypeMask(op.Types))
			var tz libmem.NodeMask
			var tu map[string]libmem.NodeMask
			var terr error
			if twinOK {
				vw.SetRequest(opKey)
				tz, tu, terr = twin.a.Realloc(op.Target, libmem.NodeMask(op.Aff), libmem.TypeMask(op.Types))
			}
			track(zone, upd)
			after := w.observe()
			if err != nil {
				res.Fault("realloc.fail")
				if c06 {
					res.Check("failed-op-leaves-state")
					if as := after.String(); as != bs {
						res.Violate("C06", "failed-op-leaves-state", "C06 failed-op-leaves-state realloc", step, "failed Realloc(%s,%s,%s) changed state:\n before %s\n after  %s", op.Target, libmem.NodeMask(op.Aff), libmem.TypeMask(op.Types), bs, as)
					}
				}
			} else {
				if after.String() != bs {
					changes++
					res.Probe("realloc-changed-assignment")
					markStale("realloc", op.N)
				}
				if _, ok := before.assigned[op.Target]; ok {
					// Realloc adds the given types (or those implied by the given
					// nodes) to what the caller requests for this allocation
					t := libmem.TypeMask(op.Types)
					if t == 0 {
						for _, ns := range p.Nodes {
							if op.Aff&(1<<uint(ns.ID)) != 0 {
								t |= libmem.Type(ns.Type).Mask()
							}
						}
					}
					asked[op.Target] |= t
					checkPlacement(step, "realloc", before, after, op.Target, zone, upd, true)
				}
			}
			if twinOK && c06 {
				res.Check("deterministic-outcome")
				if (err == nil) != (terr == nil) || zone != tz || updStr(upd) != updStr(tu) {
					res.Violate("C06", "offer-leaves-state", "C06 offer-leaves-state later-realloc-differs", step, "Realloc(%s) gives (%s,{%s},%v) on the allocator that served GetOffer calls earlier, but (%s,{%s},%v) on a twin with the same committed history that never served an offer (same map orders): requesting offers changed allocator state", op.Target, zone, updStr(upd), err, tz, updStr(tu), terr)
					twinOK = false
				}
			}
		case "release":
			err := w.a.Release(op.Target)
			if twinOK {
				twin.a.Release(op.Target)
			}
			after := w.observe()
			if err != nil {
				if !errors.Is(err, libmem.ErrUnknownRequest) {
					res.Extra["release-other-error"]++
				}
				res.Fault("release.unknown")
				if c06 {
					res.Check("failed-op-leaves-state")
					if as := after.String(); as != bs {
						res.Violate("C06", "failed-op-leaves-state", "C06 failed-op-leaves-state release", step, "failed Release(%s) changed state", op.Target)
					}
				}
			} else {
				changes++
				delete(asked, op.Target)
				markStale("release", op.N)
				if c06 {
					res.Check("release-exact")
					// expected: before minus the released id
					exp := &observation{assigned: map[string]libmem.NodeMask{}, requests: map[string]reqInfo{}, usage: map[libmem.NodeMask]int64{}}
					for id, z := range before.assigned {
						if id != op.Target {
							exp.assigned[id] = z
						}
					}
					for id, q := range before.requests {
						if id != op.Target {
							exp.requests[id] = q
						}
					}
					rel := before.requests[op.Target]
					for z, u := range before.usage {
						// the public ZoneUsage masks memory-less nodes, so the
						// released size is either counted in z or not: accept both,
						// nothing else
						if au := after.usage[z]; au == u-rel.size && rel.zone&z != 0 {
							u = au
						}
						exp.usage[z] = u
					}
					if es, as := exp.String(), after.String(); es != as {
						res.Violate("C06", "release-exact", "C06 release-exact", step, "Release(%s) changed more or less than that allocation:\n expected %s\n got      %s", op.Target, es, as)
					}
				}
			}
		case "reset":
			w.a.Reset()
			if twinOK {
				twin.a.Reset()
			}
			changes++
			markStale("reset", op.N)
		}
		as := w.observe().String()
		res.State(sim.Hash64(as))
		vw.Logf("op%d %s -> %s", op.N, op.Kind, as)
		if corrupt {
			// a stale offer was applied: the allocator state is suspect
			// from here on (duplicate requests, endless overcommit
			// resolution), stop the run
			res.Ops = step + 1
			break
		}
	}
	res.Nontrivial = changes >= 2
	res.SimSeconds = vw.SimulatedSeconds()
	res.Digest = fmt.Sprintf("%016x", vw.LogDigest())
	res.Extra["map-iterations"] = int(vw.IterCalls)
}

func main() { sim.Main(engine{}) }
