package main

import (
	"fmt"
	"sort"
	"strings"

	nri "github.com/containerd/nri/pkg/api"

	"verifh/machine"
)

// ---------------------------------------------------------------------------
// plan: what one run does

type PodSpec struct {
	ID          string            `json:"id"`
	Name        string            `json:"name"`
	Namespace   string            `json:"ns"`
	QoS         string            `json:"qos"` // Guaranteed Burstable BestEffort
	Labels      map[string]string `json:"labels,omitempty"`
	Annotations map[string]string `json:"annotations,omitempty"`
}

type CtrSpec struct {
	ID       string `json:"id"`
	Pod      string `json:"pod"`
	Name     string `json:"name"`
	MilliCPU int    `json:"mcpu"`           // CPU request
	LimitCPU int    `json:"lcpu,omitempty"` // CPU limit (0 = none)
	MemLimit int64  `json:"memlim,omitempty"`
	MemReq   int64  `json:"memreq,omitempty"`
	InitMems string `json:"initmems,omitempty"` // cpuset.mems the container arrives with (C12)
	// absent optional sub-messages (C14)
	NoLinux, NoResources, NoCPU, NoMemory bool `json:",omitempty"`
}

type Op struct {
	N          int        `json:"n"`
	Kind       string     `json:"kind"` // run-pod create start update stop remove stop-pod remove-pod reconfigure restart sync advance
	Pod        *PodSpec   `json:"pod,omitempty"`
	Ctr        *CtrSpec   `json:"ctr,omitempty"`
	ID         string     `json:"id,omitempty"`
	MCPU       int        `json:"mcpu,omitempty"`       // update: new request
	Mem        int64      `json:"mem,omitempty"`        // update: new memory limit
	Cfg        *CfgSpec   `json:"cfg,omitempty"`        // reconfigure
	Crash      int        `json:"crash,omitempty"`      // lifecycle request: the plugin process is killed at this fs operation of the request (0 = never), then restarted
	CrashAfter bool       `json:"crashAfter,omitempty"` // ... right after that fs operation completed instead of right before it
	Fault      string     `json:"fault,omitempty"`      // nri.drop nri.dup nri.unknown-id stub.update-error ...
	Secs       int        `json:"secs,omitempty"`       // advance
	Ev         string     `json:"ev,omitempty"`         // kind "x": the NRI event to deliver out of protocol (C14)
	Gone       []string   `json:"gone,omitempty"`       // restart: containers that disappear while the plugin is down
	DownStart  []string   `json:"downStart,omitempty"`  // restart: created containers that are started while the plugin is down
	DownStop   []string   `json:"downStop,omitempty"`   // restart: containers that exit while the plugin is down (still listed, stopped)
	DownAdd    []*CtrSpec `json:"downAdd,omitempty"`    // restart: containers created while the plugin is down (no plugin adjusted them)
	Skip       bool       `json:"skip,omitempty"`       // differential twin: do not deliver this op

	identical bool // reconfigure with the configuration already in force (set at execution)
}

// CfgSpec is a policy configuration in harness terms (rendered to the real
// config types by the engine).
type CfgSpec struct {
	Policy string `json:"policy"` // topology-aware | balloons
	// common
	Available string   `json:"available,omitempty"` // cpuset or ""
	Reserved  string   `json:"reserved"`            // "cpuset:0-1" or quantity "750m"
	PinCPU    bool     `json:"pinCPU"`
	PinMemory bool     `json:"pinMemory"`
	ResNS     []string `json:"reservedPoolNamespaces,omitempty"`
	// topology-aware
	PreferIsolated *bool  `json:"preferIsolated,omitempty"`
	PreferShared   *bool  `json:"preferShared,omitempty"`
	ColocatePods   bool   `json:"colocatePods,omitempty"`
	ColocateNS     bool   `json:"colocateNamespaces,omitempty"`
	DefaultPrio    string `json:"defaultCPUPriority,omitempty"`
	// balloons
	Balloons *BalloonsCfg `json:"balloons,omitempty"`
	// invalid kind injected (C13): "" = valid
	Invalid string `json:"invalid,omitempty"`
}

type Plan struct {
	Policy  string           `json:"policy"`
	Machine *machine.Machine `json:"machine"`
	Cfg     *CfgSpec         `json:"cfg"`
	Order   int              `json:"order"`
	Ops     []Op             `json:"ops"`
	Conc    []Op             `json:"conc,omitempty"`    // C15: requests issued concurrently after Ops
	Metrics bool             `json:"metrics,omitempty"` // C15: a metrics gatherer is installed (metrics.Block() takes its lock)
	Debug   bool             `json:"debug,omitempty"`   // every configuration of the run enables debug logging for all sources
}

// ---------------------------------------------------------------------------
// runtime model: the container runtime's truth and what it has been told

type told struct {
	Cpus, Mems           string
	Shares, Period       uint64
	Quota                int64
	MemLimit, Swap       int64
	HasShares, HasQuota  bool
	HasPeriod, HasMem    bool
	HasSwap              bool
	CpusSet, MemsSet     bool // a value was ever told by the plugin
	staleUntilNextUpdate bool // an UpdateContainers push for it failed (fault batches)
}

type rPod struct {
	spec    *PodSpec
	state   string // running stopped removed
	dropped bool   // RunPodSandbox was never delivered
}

type rCtr struct {
	spec       *CtrSpec
	pod        *rPod
	state      string          // creating created running stopped removed failed
	init       told            // what the runtime itself sent in CreateContainer
	t          told            // told view
	rv         told            // what the runtime actually enforces: kubelet values, overwritten by UpdateContainer, with the plugin\'s answers on top
	cur        *CtrSpec        // current resources (after updates)
	known      bool            // the plugin has seen a CreateContainer for it
	stopSeen   bool            // the plugin has seen StopContainer (or a sync listing it exited)
	lostGrant  string          // why an active container may hold no grant ("failed-update")
	updated    bool            // its resources were changed by UpdateContainer (the balloons policy ignores updates)
	cfgAtAlloc *CfgSpec        // configuration in force when last (re)allocated
	reqUnsure  bool            // a failed UpdateContainer left the plugin and the runtime with different ideas of the request
	resAtAlloc bool            // reserved-class under the configuration in force when last (re)allocated
	restarts   int             // plugin restarts the container has lived through
	lostPush   bool            // an UpdateContainers push for it was refused by the runtime (fault batches): F27
	toldHist   map[string]bool // earlier told cpus|mems values (F7 classification)
}

type runtimeModel struct {
	pods        map[string]*rPod
	ctrs        map[string]*rCtr
	order       []string // creation order of containers
	memCapacity int64
}

func newRuntime() *runtimeModel {
	return &runtimeModel{pods: map[string]*rPod{}, ctrs: map[string]*rCtr{}}
}

func cgroupParent(p *PodSpec) string {
	switch p.QoS {
	case "Burstable":
		return "/kubepods/burstable/pod" + p.ID
	case "BestEffort":
		return "/kubepods/besteffort/pod" + p.ID
	}
	return "/kubepods/pod" + p.ID
}

func (p *PodSpec) nri() *nri.PodSandbox {
	return &nri.PodSandbox{
		Id: p.ID, Name: p.Name, Uid: "uid-" + p.ID, Namespace: p.Namespace,
		Labels: p.Labels, Annotations: p.Annotations,
		Linux: &nri.LinuxPodSandbox{CgroupParent: cgroupParent(p)},
	}
}

// kubelet encodings (written from the kubelet's documented rules, not from
// pkg/kubernetes)
func sharesOf(milli int) uint64 {
	if milli == 0 {
		return 2
	}
	s := uint64(milli) * 1024 / 1000
	if s < 2 {
		s = 2
	}
	if s > 262144 {
		s = 262144
	}
	return s
}

func quotaOf(milli int) int64 {
	if milli == 0 {
		return 0
	}
	q := int64(milli) * 100000 / 1000
	if q < 1000 {
		q = 1000
	}
	return q
}

func (rt *runtimeModel) oomAdj(pod *PodSpec, c *CtrSpec) int64 {
	switch pod.QoS {
	case "Guaranteed":
		return -997
	case "BestEffort":
		return 1000
	}
	if rt.memCapacity == 0 {
		return 999
	}
	adj := 1000 - (1000*c.MemReq)/rt.memCapacity
	if adj < 3 {
		adj = 3
	}
	if adj > 999 {
		adj = 999
	}
	return adj
}

// linuxResources renders a container spec the way the kubelet/CRI runtime does.
func (rt *runtimeModel) linuxResources(pod *PodSpec, c *CtrSpec) *nri.LinuxResources {
	r := &nri.LinuxResources{}
	if !c.NoCPU {
		r.Cpu = &nri.LinuxCPU{Shares: nri.UInt64(sharesOf(c.MilliCPU))}
		lim := c.LimitCPU
		if pod.QoS == "Guaranteed" {
			lim = c.MilliCPU
		}
		if lim > 0 {
			r.Cpu.Quota = nri.Int64(quotaOf(lim))
			r.Cpu.Period = nri.UInt64(100000)
		}
		r.Cpu.Mems = c.InitMems
	}
	if !c.NoMemory {
		if c.MemLimit > 0 {
			r.Memory = &nri.LinuxMemory{Limit: nri.Int64(c.MemLimit)}
		} else {
			r.Memory = &nri.LinuxMemory{}
		}
	}
	return r
}

func stateOf(s string) nri.ContainerState {
	switch s {
	case "creating", "created":
		return nri.ContainerState_CONTAINER_CREATED
	case "running":
		return nri.ContainerState_CONTAINER_RUNNING
	case "stopped":
		return nri.ContainerState_CONTAINER_STOPPED
	}
	return nri.ContainerState_CONTAINER_UNKNOWN
}

// nriCtr renders the container as the runtime reports it now: its current
// spec plus everything it has been told.
func (rt *runtimeModel) nriCtr(c *rCtr) *nri.Container {
	spec := c.cur
	out := &nri.Container{Id: spec.ID, PodSandboxId: spec.Pod, Name: spec.Name, State: stateOf(c.state),
		Labels: map[string]string{"io.kubernetes.container.name": spec.Name}}
	if spec.NoLinux {
		return out
	}
	out.Linux = &nri.LinuxContainer{OomScoreAdj: nri.Int(int(rt.oomAdj(c.pod.spec, spec)))}
	if spec.NoResources {
		return out
	}
	r := rt.linuxResources(c.pod.spec, spec)
	// the runtime reports what it currently enforces
	t := c.rv
	if r.Cpu == nil && (t.CpusSet || t.MemsSet || t.HasShares) {
		r.Cpu = &nri.LinuxCPU{}
	}
	if r.Cpu != nil {
		if t.CpusSet {
			r.Cpu.Cpus = t.Cpus
		}
		if t.MemsSet {
			r.Cpu.Mems = t.Mems
		}
		if t.HasShares {
			r.Cpu.Shares = nri.UInt64(t.Shares)
		}
		if t.HasQuota {
			r.Cpu.Quota = nri.Int64(t.Quota)
		}
		if t.HasPeriod {
			r.Cpu.Period = nri.UInt64(t.Period)
		}
	}
	if t.HasMem {
		if r.Memory == nil {
			r.Memory = &nri.LinuxMemory{}
		}
		r.Memory.Limit = nri.Int64(t.MemLimit)
	}
	out.Linux.Resources = r
	return out
}

func (t *told) apply(r *nri.LinuxResources) {
	if r == nil {
		return
	}
	if c := r.Cpu; c != nil {
		if c.Cpus != "" {
			t.Cpus, t.CpusSet = c.Cpus, true
		}
		if c.Mems != "" {
			t.Mems, t.MemsSet = c.Mems, true
		}
		if c.Shares != nil {
			t.Shares, t.HasShares = c.Shares.Value, true
		}
		if c.Quota != nil {
			t.Quota, t.HasQuota = c.Quota.Value, true
		}
		if c.Period != nil {
			t.Period, t.HasPeriod = c.Period.Value, true
		}
	}
	if m := r.Memory; m != nil {
		if m.Limit != nil {
			t.MemLimit, t.HasMem = m.Limit.Value, true
		}
		if m.Swap != nil {
			t.Swap, t.HasSwap = m.Swap.Value, true
		}
	}
}

func (t told) String() string {
	return fmt.Sprintf("cpus=%q mems=%q shares=%d quota=%d period=%d memlimit=%d swap=%d", t.Cpus, t.Mems, t.Shares, t.Quota, t.Period, t.MemLimit, t.Swap)
}

// live containers: those the runtime still has (created, running or stopped
// but not removed)
func (rt *runtimeModel) live() []*rCtr {
	var out []*rCtr
	for _, id := range rt.order {
		c := rt.ctrs[id]
		if c != nil && c.state != "removed" && c.state != "failed" {
			out = append(out, c)
		}
	}
	return out
}

func (rt *runtimeModel) active() []*rCtr {
	var out []*rCtr
	for _, c := range rt.live() {
		if c.state == "created" || c.state == "running" {
			out = append(out, c)
		}
	}
	return out
}

func sortedKeys[V any](m map[string]V) []string {
	k := make([]string, 0, len(m))
	for s := range m {
		k = append(k, s)
	}
	sort.Strings(k)
	return k
}

func (rt *runtimeModel) dump() string {
	var b strings.Builder
	for _, c := range rt.live() {
		fmt.Fprintf(&b, "%s[%s] %s\n", c.spec.ID, c.state, c.t)
	}
	return b.String()
}

func (c *rCtr) noteTold() {
	if c.toldHist == nil {
		c.toldHist = map[string]bool{}
	}
	c.toldHist["cpus="+c.t.Cpus] = true
	c.toldHist["mems="+c.t.Mems] = true
}
