// nrisim (engine E1): the real resource manager (NRI handlers, reconfigure),
// cache, policy wrapper and one real policy back end (topology-aware or
// balloons) with real libmem, cpuallocator and sysfs discovery over a generated
// machine tree; the container runtime, the NRI stub, the clock, the file
// system, map iteration order and goroutine scheduling are simulated.
package main

import (
	"encoding/json"
	"fmt"
	"os"
	"path/filepath"
	"sort"

	"verifh/sim"
	"verifh/verifrt"
)

type engine struct{}

func (engine) Name() string { return "nrisim" }
func (engine) Properties() []string {
	return []string{"C01", "C02", "C03", "C04", "C05", "C08", "C09", "C11", "C12", "C13", "C14", "C15", "C16"}
}
func (engine) Components() (real, stub []string) {
	return []string{
			"pkg/resmgr (NRI handlers Synchronize/RunPodSandbox/CreateContainer/StartContainer/UpdateContainer/StopContainer/RemoveContainer/StopPodSandbox/RemovePodSandbox, updateConfig/reconfigure/revert)",
			"pkg/resmgr/cache", "pkg/resmgr/policy wrapper", "cmd/plugins/topology-aware/policy", "cmd/plugins/balloons/policy",
			"pkg/resmgr/lib/memory", "pkg/cpuallocator", "pkg/sysfs discovery over a rendered machine tree", "pkg/resmgr/control/cpu bookkeeping",
		}, []string{
			"NRI stub and container runtime (runtime model: pods, containers, lifecycle, told view)", "kubelet pod-resources (absent: no client)",
			"agent (local-config mode: no API server, NRT updates are no-ops)", "file-system calls of pkg/resmgr/cache (verifrt.FS over a scratch directory)",
			"clock (verifrt)", "goroutine scheduling (eager: spawned tasks run at the spawn point; the event loop, which only logs, runs outside the simulation)", "map iteration order (seeded)",
		}
}

func (p *Plan) NumOps() int { return len(p.Ops) }
func (p *Plan) Keep(keep []bool) sim.Plan {
	q := *p
	q.Ops = nil
	for i, o := range p.Ops {
		if keep[i] {
			q.Ops = append(q.Ops, o)
		}
	}
	return &q
}
func (p *Plan) Simplify() []sim.Plan {
	var out []sim.Plan
	if p.Order != 0 {
		q := *p
		q.Order = 0
		out = append(out, &q)
	}
	if p.Metrics {
		q := *p
		q.Metrics = false
		out = append(out, &q)
	}
	if len(p.Conc) > 2 {
		for i := range p.Conc {
			q := *p
			q.Conc = append(append([]Op(nil), p.Conc[:i]...), p.Conc[i+1:]...)
			out = append(out, &q)
		}
	}
	// plain annotations
	for i, o := range p.Ops {
		if o.Pod != nil && len(o.Pod.Annotations) > 0 {
			q := *p
			q.Ops = append([]Op(nil), p.Ops...)
			ps := *o.Pod
			ps.Annotations = nil
			q.Ops[i].Pod = &ps
			out = append(out, &q)
		}
	}
	return out
}

func (engine) Decode(raw json.RawMessage) (sim.Plan, error) {
	var p Plan
	if err := json.Unmarshal(raw, &p); err != nil {
		return nil, err
	}
	return &p, nil
}

func (engine) Generate(prop, tier string, seed uint64, faults bool) sim.Plan {
	return genPlan(prop, tier, seed, faults)
}

func (e engine) Execute(prop string, plan sim.Plan, seed uint64, res *sim.RunResult) {
	p := plan.(*Plan)
	debugLogging = p.Debug
	setupProcess()
	defer func() {
		stopBooted()
	}()
	res.Ops = len(p.Ops)
	res.Sample = planSummary(p)
	root, err := os.MkdirTemp("", "verif-nrisim-*")
	if err != nil {
		panic(err)
	}
	defer os.RemoveAll(root)
	if err := p.Machine.Render(filepath.Join(root, "host")); err != nil {
		panic(err)
	}
	vw := verifrt.NewWorld(seed, verifrt.OrderMode(p.Order))
	fsw := vw.NewFS(filepath.Join(root, "state"))
	w := &world{plan: p, prop: prop, seed: seed, res: res, vw: vw, root: root, rt: newRuntime(), everActive: map[string]bool{}, fsw: fsw}
	w.setMemCapacity()
	vw.SetRequest("boot")
	if err := w.bootRecover(p.Cfg); err != nil {
		// the generated configuration does not fit the generated machine, or
		// discovery refuses the machine: not a run
		res.Extra["boot-refused"]++
		res.Digest = "boot-refused"
		vw.Logf("boot refused: %v", err)
		if os.Getenv("VERIF_TRACE") != "" {
			fmt.Fprintf(os.Stderr, "TRACE boot refused: %v\n", err)
		}
		return
	}
	or := newOracles(w)
	or.afterBoot()
	if prop == "C15" {
		w.runC15(or)
		res.Nontrivial = res.Extra["task-switches"] >= 2
		res.SimSeconds = vw.SimulatedSeconds()
		res.Digest = fmt.Sprintf("%016x", vw.LogDigest())
		return
	}
	changes := w.runOps(or, nil, nil)
	if !w.dead && len(res.Violations) == 0 {
		or.atEnd()
	}
	if prop == "C13" && !w.dead && len(res.Violations) == 0 {
		e.c13Twin(w, p, seed, res)
	}
	res.Nontrivial = changes >= 2
	res.SimSeconds = vw.SimulatedSeconds()
	res.Digest = fmt.Sprintf("%016x", vw.LogDigest())
	res.Extra["map-iterations"] += int(vw.IterCalls)
}

// runOps drives the plan's operations. skip marks op numbers that are not
// delivered (differential twin); record, if non-nil, receives one observation
// per delivered op.
func (w *world) runOps(or *oracles, skip map[int]bool, record map[int]string) int {
	p, vw, res := w.plan, w.vw, w.res
	// initial synchronization with an empty runtime
	vw.SetRequest("sync0")
	rep := &reply{kind: "sync"}
	rep.err, rep.crashed = w.synchronize(rep)
	w.applyReply(rep)
	changes := 0
	for i := range p.Ops {
		op := p.Ops[i] // copy: execution annotates it
		w.step = i
		if skip[op.N] {
			continue
		}
		vw.SetRequest(fmt.Sprintf("op%d", op.N))
		if os.Getenv("VERIF_TRACE") != "" {
			b, _ := json.Marshal(op)
			fmt.Fprintf(os.Stderr, "TRACE op %s\n", b)
		}
		if or != nil {
			or.beforeRequest(&op)
		}
		rep := w.doOpMaybeCrashing(&op)
		if rep.skipped {
			continue
		}
		if os.Getenv("VERIF_TRACE") != "" {
			fmt.Fprintf(os.Stderr, "TRACE   -> err=%v updates=%d pushed=%d\n%s", rep.err, len(rep.updates), len(rep.pushed), w.rt.dump())
		}
		if rep.err == nil {
			changes++
		}
		if w.dead {
			break
		}
		if record != nil {
			s, _ := newOracles(w).toldAndZones()
			record[op.N] = fmt.Sprintf("err=%v\n%s", rep.err != nil, s)
			if rep.kind == "reconfigure" && rep.err != nil {
				record[-op.N] = "rejected"
			}
			continue
		}
		or.afterRequest(rep)
		fp := or.fingerprint()
		res.State(fp)
		vw.Logf("op%d %s err=%v fp=%016x", op.N, op.Kind, rep.err != nil, fp)
		if len(res.Violations) > 0 {
			break
		}
	}
	return changes
}

// c13Twin: rejection atomicity. The same plan is executed twice more in fresh
// worlds, once as is and once without the configuration updates that were
// rejected; every other request must see identical assignments, advertised
// capacities and outcomes (map-order streams are keyed per request, so all
// other choices coincide).
func (e engine) c13Twin(w0 *world, p *Plan, seed uint64, res *sim.RunResult) {
	run := func(skip map[int]bool, tag string) (map[int]string, bool) {
		root := w0.root + "/" + tag
		if err := p.Machine.Render(filepath.Join(root, "host")); err != nil {
			return nil, false
		}
		vw := verifrt.NewWorld(seed, verifrt.OrderMode(p.Order))
		vw.NewFS(filepath.Join(root, "state"))
		w := &world{plan: p, prop: "C13", seed: seed, res: sim.NewResult(seed, 0), vw: vw, root: root, rt: newRuntime(), everActive: map[string]bool{}}
		w.setMemCapacity()
		vw.SetRequest("boot")
		if err := w.bootRecover(p.Cfg); err != nil {
			return nil, false
		}
		rec := map[int]string{}
		w.runOps(nil, skip, rec)
		return rec, !w.dead
	}
	with, ok := run(nil, "with")
	if !ok {
		return
	}
	skip := map[int]bool{}
	for n, v := range with {
		if n < 0 && v == "rejected" {
			skip[-n] = true
		}
	}
	if len(skip) == 0 {
		return
	}
	res.Probe("rejected-update-differential-run")
	without, ok := run(skip, "without")
	if !ok {
		return
	}
	ns := make([]int, 0, len(without))
	for n := range without {
		if n > 0 {
			ns = append(ns, n)
		}
	}
	sort.Ints(ns)
	for _, n := range ns {
		res.Check("rejected-update-never-happened")
		if a, b := with[n], without[n]; a != b {
			var kind string
			inv := ""
			_ = inv
			for _, op := range p.Ops {
				if op.N == n {
					kind = op.Kind
				}
			}
			first := 0
			for k := range skip {
				if first == 0 || k < first {
					first = k
				}
			}
			for _, op := range p.Ops {
				if op.N == first && op.Cfg != nil {
					inv = op.Cfg.Invalid
				}
			}
			res.Violate("C13", "rejected-update-never-happened", "C13 rejected-update-never-happened "+p.Policy, n,
				"the history with the rejected configuration update(s) %v and the same history without them diverge at op %d (%s):\n%s", keysOf(skip), n, kind, firstDiffLines(b, a))
			return
		}
	}
}

func keysOf(m map[int]bool) []int {
	k := make([]int, 0, len(m))
	for x := range m {
		k = append(k, x)
	}
	sort.Ints(k)
	return k
}

// planSummary is what evidence samples show: the op list without the machine.
func planSummary(p *Plan) any {
	type s struct {
		Policy  string   `json:"policy"`
		Machine string   `json:"machine"`
		Cfg     *CfgSpec `json:"cfg"`
		Ops     []string `json:"ops"`
	}
	out := s{Policy: p.Policy, Machine: p.Machine.Name, Cfg: p.Cfg}
	for _, o := range p.Ops {
		d := o.Kind
		switch {
		case o.Ctr != nil:
			d += fmt.Sprintf(" %s in %s %dm", o.Ctr.ID, o.Ctr.Pod, o.Ctr.MilliCPU)
		case o.Pod != nil:
			d += fmt.Sprintf(" %s ns=%s %s", o.Pod.ID, o.Pod.Namespace, o.Pod.QoS)
		case o.ID != "":
			d += " " + o.ID
		}
		if o.Cfg != nil && o.Cfg.Invalid != "" {
			d += " invalid=" + o.Cfg.Invalid
		}
		out.Ops = append(out.Ops, d)
	}
	return out
}

func main() {
	// outside the scheduled phase of C15 the whole world runs on this one
	// goroutine: a handler that finds a lock taken has deadlocked with itself
	verifrt.SequentialWorld = true
	sim.Main(engine{})
}
