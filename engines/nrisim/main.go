// nrisim (engine E1): the real resource manager (NRI handlers, reconfigure),
// cache, policy wrapper and one real policy back end (topology-aware or
// balloons) with real libmem, cpuallocator and sysfs discovery over a generated
// machine tree; the container runtime, the NRI stub, the clock, the file
// system, map iteration order and goroutine scheduling are simulated.
package main

import (
	"encoding/json"
	"fmt"
	"os"
	"path/filepath"

	"verifh/sim"
	"verifh/verifrt"
)

type engine struct{}

func (engine) Name() string { return "nrisim" }
func (engine) Properties() []string {
	return []string{"C01", "C02", "C03", "C04", "C05", "C08", "C09", "C11", "C12", "C13", "C14", "C16"}
}
func (engine) Components() (real, stub []string) {
	return []string{
			"pkg/resmgr (NRI handlers Synchronize/RunPodSandbox/CreateContainer/StartContainer/UpdateContainer/StopContainer/RemoveContainer/StopPodSandbox/RemovePodSandbox, updateConfig/reconfigure/revert)",
			"pkg/resmgr/cache", "pkg/resmgr/policy wrapper", "cmd/plugins/topology-aware/policy", "cmd/plugins/balloons/policy",
			"pkg/resmgr/lib/memory", "pkg/cpuallocator", "pkg/sysfs discovery over a rendered machine tree", "pkg/resmgr/control/cpu bookkeeping",
		}, []string{
			"NRI stub and container runtime (runtime model: pods, containers, lifecycle, told view)", "kubelet pod-resources (absent: no client)",
			"agent (local-config mode: no API server, NRT updates are no-ops)", "file-system calls of pkg/resmgr/cache (verifrt.FS over a scratch directory)",
			"clock (verifrt)", "goroutine scheduling (eager: spawned tasks run at the spawn point; the event loop, which only logs, runs outside the simulation)", "map iteration order (seeded)",
		}
}

func (p *Plan) NumOps() int { return len(p.Ops) }
func (p *Plan) Keep(keep []bool) sim.Plan {
	q := *p
	q.Ops = nil
	for i, o := range p.Ops {
		if keep[i] {
			q.Ops = append(q.Ops, o)
		}
	}
	return &q
}
func (p *Plan) Simplify() []sim.Plan {
	var out []sim.Plan
	if p.Order != 0 {
		q := *p
		q.Order = 0
		out = append(out, &q)
	}
	// plain annotations
	for i, o := range p.Ops {
		if o.Pod != nil && len(o.Pod.Annotations) > 0 {
			q := *p
			q.Ops = append([]Op(nil), p.Ops...)
			ps := *o.Pod
			ps.Annotations = nil
			q.Ops[i].Pod = &ps
			out = append(out, &q)
		}
	}
	return out
}

func (engine) Decode(raw json.RawMessage) (sim.Plan, error) {
	var p Plan
	if err := json.Unmarshal(raw, &p); err != nil {
		return nil, err
	}
	return &p, nil
}

func (engine) Generate(prop, tier string, seed uint64, faults bool) sim.Plan {
	return genPlan(prop, tier, seed, faults)
}

func (e engine) Execute(prop string, plan sim.Plan, seed uint64, res *sim.RunResult) {
	p := plan.(*Plan)
	setupProcess()
	res.Ops = len(p.Ops)
	res.Sample = planSummary(p)
	root, err := os.MkdirTemp("", "verif-nrisim-*")
	if err != nil {
		panic(err)
	}
	defer os.RemoveAll(root)
	if err := p.Machine.Render(filepath.Join(root, "host")); err != nil {
		panic(err)
	}
	vw := verifrt.NewWorld(seed, verifrt.OrderMode(p.Order))
	vw.NewFS(filepath.Join(root, "state"))
	w := &world{plan: p, prop: prop, seed: seed, res: res, vw: vw, root: root, rt: newRuntime(), everActive: map[string]bool{}}
	w.setMemCapacity()
	vw.SetRequest("boot")
	if err := w.bootRecover(p.Cfg); err != nil {
		// the generated configuration does not fit the generated machine, or
		// discovery refuses the machine: not a run
		res.Extra["boot-refused"]++
		res.Digest = "boot-refused"
		vw.Logf("boot refused: %v", err)
		if os.Getenv("VERIF_TRACE") != "" {
			fmt.Fprintf(os.Stderr, "TRACE boot refused: %v\n", err)
		}
		return
	}
	or := newOracles(w)
	or.afterBoot()
	// initial synchronization with an empty runtime
	vw.SetRequest("sync0")
	rep := &reply{kind: "sync"}
	rep.err, rep.crashed = w.synchronize(rep)
	w.applyReply(rep)
	changes := 0
	for i := range p.Ops {
		op := &p.Ops[i]
		w.step = i
		vw.SetRequest(fmt.Sprintf("op%d", op.N))
		if os.Getenv("VERIF_TRACE") != "" {
			b, _ := json.Marshal(op)
			fmt.Fprintf(os.Stderr, "TRACE op %s\n", b)
		}
		rep := w.doOp(op)
		if rep.skipped {
			continue
		}
		if os.Getenv("VERIF_TRACE") != "" {
			fmt.Fprintf(os.Stderr, "TRACE   -> err=%v updates=%d pushed=%d\n%s", rep.err, len(rep.updates), len(rep.pushed), w.rt.dump())
		}
		if rep.err == nil {
			changes++
		}
		if w.dead {
			break
		}
		or.afterRequest(rep)
		fp := or.fingerprint()
		res.State(fp)
		vw.Logf("op%d %s err=%v fp=%016x", op.N, op.Kind, rep.err != nil, fp)
		if len(res.Violations) > 0 {
			break
		}
	}
	if !w.dead && len(res.Violations) == 0 {
		or.atEnd()
	}
	res.Nontrivial = changes >= 2
	res.SimSeconds = vw.SimulatedSeconds()
	res.Digest = fmt.Sprintf("%016x", vw.LogDigest())
	res.Extra["map-iterations"] += int(vw.IterCalls)
}

// planSummary is what evidence samples show: the op list without the machine.
func planSummary(p *Plan) any {
	type s struct {
		Policy  string   `json:"policy"`
		Machine string   `json:"machine"`
		Cfg     *CfgSpec `json:"cfg"`
		Ops     []string `json:"ops"`
	}
	out := s{Policy: p.Policy, Machine: p.Machine.Name, Cfg: p.Cfg}
	for _, o := range p.Ops {
		d := o.Kind
		switch {
		case o.Ctr != nil:
			d += fmt.Sprintf(" %s in %s %dm", o.Ctr.ID, o.Ctr.Pod, o.Ctr.MilliCPU)
		case o.Pod != nil:
			d += fmt.Sprintf(" %s ns=%s %s", o.Pod.ID, o.Pod.Namespace, o.Pod.QoS)
		case o.ID != "":
			d += " " + o.ID
		}
		if o.Cfg != nil && o.Cfg.Invalid != "" {
			d += " invalid=" + o.Cfg.Invalid
		}
		out.Ops = append(out.Ops, d)
	}
	return out
}

func main() { sim.Main(engine{}) }
