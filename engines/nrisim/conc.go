package main

// C15: concurrent delivery. After a sequential prefix, 2-3 independent
// requests (different containers/pods; at most one reconfigure and one
// Synchronize) are issued as tasks of the cooperative scheduler (verifrt.Sched):
// exactly one task runs at a time and the seeded scheduler may switch tasks at
// every Lock/Unlock, `go` statement, channel receive and - for a task holding
// no lock - at every access probe of the cache and policy types. One seed is
// one interleaving; replay reproduces it exactly.

import (
	"fmt"
	"os"
	"path/filepath"
	"sort"
	"strings"

	nri "github.com/containerd/nri/pkg/api"
	"github.com/containers/nri-plugins/pkg/agent/podresapi"
	instmetrics "github.com/containers/nri-plugins/pkg/instrumentation/metrics"
	"github.com/containers/nri-plugins/pkg/resmgr"
	podresv1 "k8s.io/kubelet/pkg/apis/podresources/v1"

	"verifh/sim"
	"verifh/verifrt"
)

var handlerOf = map[string]string{
	"run-pod": "RunPodSandbox", "create": "CreateContainer", "start": "StartContainer", "update": "UpdateContainer",
	"stop": "StopContainer", "remove": "RemoveContainer", "stop-pod": "StopPodSandbox", "remove-pod": "RemovePodSandbox",
	"reconfigure": "updateConfig", "sync": "Synchronize",
}

// genConc appends the concurrent set to a generated plan.
func (g *genState) genConc(p *Plan) {
	r := g.r
	k := 2
	if r.Chance(0.4) {
		k = 3
	}
	ctrUsed := map[string]bool{}
	podOp := map[string]bool{}    // pods targeted by pod-level requests
	podOfCtr := map[string]bool{} // pods whose containers are targeted
	podOf := func(id string) string {
		for _, c := range g.ctrs {
			if c.ID == id {
				return c.Pod
			}
		}
		return ""
	}
	haveCfg, haveSync := false, false
	for tries := 0; tries < 40 && len(p.Conc) < k; tries++ {
		op := Op{}
		active := g.ctrsIn("created", "running")
		created := g.ctrsIn("created")
		stopped := g.ctrsIn("stopped")
		pickFree := func(cs []*CtrSpec) *CtrSpec {
			var free []*CtrSpec
			for _, c := range cs {
				if !ctrUsed[c.ID] && !podOp[c.Pod] {
					free = append(free, c)
				}
			}
			if len(free) == 0 {
				return nil
			}
			return verifrt.Pick(r, free)
		}
		switch r.Weighted([]int{4, 10, 5, 6, 8, 5, 4, 3, 4, 2}) {
		case 0:
			op.Kind, op.Pod = "run-pod", g.newPod()
			podOp[op.Pod.ID] = true
		case 1:
			var pods []*PodSpec
			for _, pd := range g.livePods() {
				if !podOp[pd.ID] {
					pods = append(pods, pd)
				}
			}
			if len(pods) == 0 {
				continue
			}
			pod := verifrt.Pick(r, pods)
			c := g.newCtr(pod)
			used := map[string]bool{}
			for _, o := range g.ctrs {
				if o.Pod == pod.ID && g.ctrSt[o.ID] != "removed" {
					used[o.Name] = true
				}
			}
			for _, o := range p.Conc {
				if o.Ctr != nil && o.Ctr.Pod == pod.ID {
					used[o.Ctr.Name] = true
				}
			}
			c.Name = ""
			for _, n := range []string{"c0", "c1", "c2", "c3", "c4"} {
				if !used[n] {
					c.Name = n
					break
				}
			}
			if c.Name == "" {
				continue
			}
			op.Kind, op.Ctr = "create", c
			ctrUsed[c.ID], podOfCtr[pod.ID] = true, true
		case 2:
			c := pickFree(created)
			if c == nil {
				continue
			}
			op.Kind, op.ID = "start", c.ID
			ctrUsed[c.ID], podOfCtr[c.Pod] = true, true
		case 3:
			c := pickFree(active)
			if c == nil {
				continue
			}
			op.Kind, op.ID = "update", c.ID
			qos := "Burstable"
			for _, pd := range g.pods {
				if pd.ID == c.Pod {
					qos = pd.QoS
				}
			}
			op.MCPU = g.cpuChoices(qos)
			ctrUsed[c.ID], podOfCtr[c.Pod] = true, true
		case 4:
			c := pickFree(active)
			if c == nil {
				continue
			}
			op.Kind, op.ID = "stop", c.ID
			ctrUsed[c.ID], podOfCtr[c.Pod] = true, true
		case 5:
			c := pickFree(stopped)
			if nc := pickFree(created); nc != nil && (c == nil || r.Chance(0.4)) {
				// created, never started: removed without a stop event, the one
				// lifecycle request that pushes updates to the runtime by itself
				c = nc
				op.Ev = "never-started"
			}
			if c == nil {
				continue
			}
			op.Kind, op.ID = "remove", c.ID
			ctrUsed[c.ID], podOfCtr[c.Pod] = true, true
		case 6, 7:
			var pods []*PodSpec
			for _, pd := range g.pods {
				if podOp[pd.ID] || podOfCtr[pd.ID] {
					continue
				}
				busy := false
				for _, c := range g.ctrs {
					if c.Pod == pd.ID && (g.ctrSt[c.ID] == "created" || g.ctrSt[c.ID] == "running") {
						busy = true
					}
				}
				if !busy {
					pods = append(pods, pd)
				}
			}
			if len(pods) == 0 {
				continue
			}
			pod := verifrt.Pick(r, pods)
			op.Kind, op.ID = "stop-pod", pod.ID
			if !g.podLive[pod.ID] {
				op.Kind = "remove-pod"
			}
			podOp[pod.ID] = true
		case 8:
			if haveCfg {
				continue
			}
			haveCfg = true
			op.Kind, op.Cfg = "reconfigure", g.genReconfigure(p.Cfg)
			if op.Cfg.Invalid == "" && r.Chance(0.35) {
				// an update the policy rejects takes the lock twice in effect
				// (apply, then roll back): more of those than in E1 histories
				c := *op.Cfg
				c.Invalid = verifrt.Pick(r, []string{"reserved-outside-available", "unsatisfiable"})
				applyInvalid(&c, g.m)
				op.Cfg = &c
			}
		case 9:
			if haveSync {
				continue
			}
			haveSync = true
			op.Kind = "sync"
		}
		_ = podOf
		op.N = 1000 + len(p.Conc)
		p.Conc = append(p.Conc, op)
	}
}

// ---------------------------------------------------------------------------

type concObs struct {
	errs  map[int]bool
	state string
}

func (o concObs) String() string {
	ns := make([]int, 0, len(o.errs))
	for n := range o.errs {
		ns = append(ns, n)
	}
	sort.Ints(ns)
	var b strings.Builder
	for _, n := range ns {
		fmt.Fprintf(&b, "op%d err=%v\n", n, o.errs[n])
	}
	b.WriteString(o.state)
	return b.String()
}

// pluginState is the plugin-side state the property speaks about: the cache's
// view of every container and pod, and the policy's allocations and zones.
func (w *world) pluginState() string {
	var b strings.Builder
	cch := w.cache()
	var lines []string
	for _, c := range cch.GetContainers() {
		f := cacheFields(c)
		s := fmt.Sprintf("ctr %s state=%v", c.GetID(), c.GetState())
		for _, k := range fieldOrder {
			s += fmt.Sprintf(" %s=%s", k, f[k])
		}
		lines = append(lines, s)
	}
	for _, p := range cch.GetPods() {
		lines = append(lines, "pod "+p.GetID())
	}
	sort.Strings(lines)
	b.WriteString(strings.Join(lines, "\n"))
	b.WriteString("\n")
	o := newOracles(w)
	if w.plan.Policy == "topology-aware" {
		if sn := o.taSnap(); sn != nil {
			var gs []string
			for _, g := range sn.Grants {
				gs = append(gs, fmt.Sprintf("G %s@%s x=%s p=%d m=%s", g.Container, g.Pool, g.Exclusive, g.Portion, g.MemZone))
			}
			sort.Strings(gs)
			b.WriteString(strings.Join(gs, "\n"))
			b.WriteString("\n")
		}
	} else {
		b.WriteString(o.balloonsDump())
		b.WriteString("\n")
	}
	b.WriteString(o.zonesDump())
	return b.String()
}

func newWorldFor(p *Plan, prop string, seed uint64, root string) (*world, error) {
	if err := p.Machine.Render(filepath.Join(root, "host")); err != nil {
		return nil, err
	}
	vw := verifrt.NewWorld(seed, verifrt.OrderMode(p.Order))
	vw.NewFS(filepath.Join(root, "state"))
	w := &world{plan: p, prop: prop, seed: seed, res: sim.NewResult(seed, 0), vw: vw, root: root, rt: newRuntime(), everActive: map[string]bool{}}
	w.setMemCapacity()
	vw.SetRequest("boot")
	if err := w.bootRecover(p.Cfg); err != nil {
		return nil, err
	}
	return w, nil
}

// runC15 is Execute's body for C15; the world has booted.
func (w *world) runC15(or *oracles) {
	p, vw, res := w.plan, w.vw, w.res
	// sequential prefix, judged by nothing (C01-C14 do that)
	w.runOps(nil, nil, map[int]string{})
	if w.dead || len(p.Conc) < 2 {
		res.Extra["no-concurrent-phase"]++
		return
	}
	ops := append([]Op(nil), p.Conc...)
	cfg0 := w.cfg
	if p.Metrics {
		// with the Prometheus exporter on, every handler also takes the
		// gatherer's lock (after the pipeline lock): a second lock in play
		if err := instmetrics.VerifEnableGatherer(); err == nil {
			res.Probe("metrics-gatherer-installed")
			defer instmetrics.VerifDisableGatherer()
		} else if os.Getenv("VERIF_TRACE") != "" {
			fmt.Fprintf(os.Stderr, "TRACE metrics gatherer: %v\n", err)
		}
	}
	// what the invariants say before the phase
	w.preSigs = map[string]bool{}
	{
		pre := sim.NewResult(w.seed, 0)
		w.res = pre
		or.lastKind = "prefix"
		or.invariants("C15", &reply{kind: "prefix"})
		or.checkToldEqualsCache(or.sub("C15", "C05"), "concurrent")
		w.res = res
		for _, v := range pre.Violations {
			w.preSigs[v.Signature] = true
		}
	}
	// ---- concurrent phase
	sched := vw.NewSched("c15")
	w.conc = &concState{inCall: map[string]int{}, lockSeq: map[string]int{}, unlocked: map[string]string{}, pushedBy: map[string][][]*nri.ContainerUpdate{}}
	w.fixedSync = w.syncLists()
	rmKey := any(w.rm)
	sched.Monitor = func(task, kind, what string, held map[any]int) {
		if w.conc.inCall[task] == 0 && !strings.HasPrefix(task, "go@") {
			return // the harness itself looking at the cache
		}
		// (a goroutine started by the code under test is code under test)
		res.Check("access-under-lock")
		if held[rmKey] == 0 {
			if _, seen := w.conc.unlocked[task+"/"+kind]; !seen {
				w.conc.unlocked[task+"/"+kind] = what
			}
		}
	}
	sched.OnAcquire = func(task string, lock any, site string) {
		if lock == rmKey {
			if _, ok := w.conc.lockSeq[task]; !ok {
				w.conc.lockSeq[task] = len(w.conc.lockSeq) + 1
			}
		}
	}
	switches := 0
	sched.OnSwitch = func(from, to, site string) {
		switches++
		vw.Logf("switch %s -> %s at %s", from, to, site)
	}
	reps := make([]*reply, len(ops))
	names := make([]string, len(ops))
	for i := range ops {
		i := i
		names[i] = fmt.Sprintf("T%d:%s", i, handlerOf[ops[i].Kind])
		sched.Spawn(names[i], func() {
			reps[i] = w.doOp(&ops[i])
			w.conc.finished = append(w.conc.finished, i)
		})
	}
	vw.SetRequest("concurrent")
	vw.SetSched(sched)
	sched.Run()
	vw.SetSched(nil)
	res.Extra["task-switches"] += switches
	res.Extra["sched-steps"] += sched.Steps
	res.State(sim.Hash64(fmt.Sprint(sched.Choices)))
	if os.Getenv("VERIF_TRACE") != "" {
		fmt.Fprintf(os.Stderr, "TRACE concurrent phase: %v sticky=%v choices=%d deadlock=%q\n", names, sched.Sticky, len(sched.Choices), sched.Deadlock)
	}
	kinds := []string{}
	for _, op := range ops {
		kinds = append(kinds, handlerOf[op.Kind])
	}
	sort.Strings(kinds)
	res.Check("no-deadlock")
	if sched.Deadlock != "" {
		w.dead = true
		res.Violate("C15", "no-deadlock", "C15 deadlock "+strings.Join(kinds, "+"), w.step, "the concurrent requests %v never completed: %s", names, sched.Deadlock)
		return
	}
	if w.dead {
		return // a handler panicked: recorded by call()
	}
	// ---- mutual exclusion
	for _, k := range sim.SortedKeys(w.conc.unlocked) {
		i := strings.LastIndex(k, "/")
		task, kind := k[:i], k[i+1:]
		h := task[strings.Index(task, ":")+1:]
		if strings.HasPrefix(task, "go@") {
			// a goroutine the code under test started: named by file, not line
			h = "goroutine-started-in-" + strings.TrimPrefix(task[:strings.LastIndex(task, ":")], "go@")
		}
		res.Violate("C15", "access-under-lock", "C15 unlocked-access "+h+" "+kind, w.step,
			"%s touches the %s (first: %s) without holding the resource manager's lock while %v are in flight", task, kind, w.conc.unlocked[k], names)
	}
	// ---- replies reach the runtime in serialization order
	order := make([]int, 0, len(ops))
	for _, i := range w.conc.finished {
		order = append(order, i)
	}
	pos := map[int]int{}
	for k, i := range order {
		pos[i] = k
	}
	key := func(i int) int {
		if s, ok := w.conc.lockSeq[names[i]]; ok {
			return s
		}
		return 1000000 + pos[i] // never took the lock (skipped): after the others, in completion order
	}
	sort.SliceStable(order, func(a, b int) bool { return key(order[a]) < key(order[b]) })
	var last *reply
	for _, i := range order {
		if os.Getenv("VERIF_TRACE") != "" && reps[i] != nil {
			desc := fmt.Sprintf("TRACE   apply %s lockseq=%d skipped=%v err=%v", names[i], w.conc.lockSeq[names[i]], reps[i].skipped, reps[i].err)
			if a := reps[i].adjust; a != nil && a.Linux != nil && a.Linux.Resources != nil && a.Linux.Resources.Cpu != nil {
				desc += fmt.Sprintf(" adjust(%s cpus=%q)", reps[i].target, a.Linux.Resources.Cpu.Cpus)
			}
			for _, u := range reps[i].updates {
				if u.Linux != nil && u.Linux.Resources != nil && u.Linux.Resources.Cpu != nil {
					desc += fmt.Sprintf(" update(%s cpus=%q)", u.ContainerId, u.Linux.Resources.Cpu.Cpus)
				}
			}
			fmt.Fprintln(os.Stderr, desc)
		}
		if reps[i] != nil && !reps[i].skipped && !reps[i].crashed {
			reps[i].pushed = w.conc.pushedBy[names[i]]
			w.applyReply(reps[i])
			last = reps[i]
		}
	}
	// the model notes "configuration in force when last allocated" when a
	// request completes, which under concurrency need not be the order the
	// handlers ran in: with a configuration update in the set, containers
	// allocated in the phase count as allocated under the earlier one (the
	// eligibility reference then accepts what either configuration gives)
	for _, op := range ops {
		if op.Kind != "reconfigure" {
			continue
		}
		for _, o2 := range ops {
			id := o2.ID
			if o2.Ctr != nil {
				id = o2.Ctr.ID
			}
			if y, ok := w.rt.ctrs[id]; ok && (o2.Kind == "create" || o2.Kind == "update") {
				y.cfgAtAlloc = cfg0
			}
		}
	}
	w.conc0 = w.conc
	w.conc = nil
	w.fixedSync = nil
	obs := concObs{errs: map[int]bool{}, state: w.pluginState()}
	skipped := map[int]bool{}
	for i, r := range reps {
		if r == nil || r.skipped {
			skipped[ops[i].N] = true
			continue
		}
		obs.errs[ops[i].N] = r.err != nil
	}
	// ---- invariants afterwards: judged on what the phase added. Violations
	// that the (unjudged) prefix had already produced are C01-C05's business.
	// A Synchronize whose lists were overtaken by other requests of the phase
	// leaves plugin and runtime model legitimately apart: not judged then.
	var pending []sim.Violation // invariant violations the phase added; filed unless the matching sequential order shows them too
	syncOvertaken := false
	for i, op := range ops {
		if op.Kind == "sync" && w.conc0.lockSeq[names[i]] != 1 {
			syncOvertaken = true
		}
	}
	if last != nil && !syncOvertaken {
		or.lastKind, or.lastErr = last.kind, last.err != nil
		post := sim.NewResult(w.seed, 0)
		w.res = post
		or.invariants("C15", last)
		or.checkToldEqualsCache(or.sub("C15", "C05"), "concurrent")
		w.res = res
		for k, v := range post.Checks {
			res.Checks[k] += v
		}
		for k, v := range post.Probes {
			res.Probes[k] += v
		}
		for _, v := range post.Violations {
			if w.preSigs[v.Signature] {
				res.Probe("invariant-violation-predates-the-concurrent-phase")
				continue
			}
			pending = append(pending, v)
		}
	} else if syncOvertaken {
		res.Probe("synchronize-overtaken-by-other-requests")
	}
	// ---- pod-resources rendezvous (cache level, same world)
	w.podResScenario()
	if w.dead {
		return
	}
	// ---- serializability: some sequential order gives the same plugin state
	perms := permutations(len(ops))
	// the order in which the handlers took the lock first
	sort.SliceStable(perms, func(a, b int) bool { return samePerm(perms[a], order) && !samePerm(perms[b], order) })
	res.Check("serializable")
	matched := false
	var seqs []string
	for pi, perm := range perms {
		tw, err := newWorldFor(p, "C15", w.seed, fmt.Sprintf("%s/seq%d", w.root, pi))
		if err != nil {
			return
		}
		tw.runOps(nil, nil, map[int]string{})
		tw.fixedSync = tw.syncLists()
		so := concObs{errs: map[int]bool{}}
		var lastSeq *reply
		for _, i := range perm {
			op := p.Conc[i]
			tw.vw.SetRequest("concurrent")
			r := tw.doOp(&op)
			if r.skipped {
				continue
			}
			so.errs[op.N] = r.err != nil
			if !r.crashed {
				lastSeq = r
			}
		}
		if tw.dead {
			continue
		}
		so.state = tw.pluginState()
		if so.String() == obs.String() {
			res.Probe(fmt.Sprintf("serial-order-matched-%d-of-%d", pi+1, len(perms)))
			// the same requests delivered one after the other in this order
			// lead to the same plugin state: an invariant that fails there too
			// is not a matter of concurrency (C01-C05 judge it)
			seqSigs := map[string]bool{}
			if len(pending) > 0 && lastSeq != nil {
				or2 := newOracles(tw)
				or2.lastKind, or2.lastErr = lastSeq.kind, lastSeq.err != nil
				or2.invariants("C15", lastSeq)
				or2.checkToldEqualsCache(or2.sub("C15", "C05"), "concurrent")
				for _, v := range tw.res.Violations {
					seqSigs[v.Signature] = true
				}
			}
			matched = true
			var rest []sim.Violation
			for _, v := range pending {
				if seqSigs[v.Signature] {
					res.Probe("invariant-violation-also-after-an-equivalent-sequential-order")
					continue
				}
				rest = append(rest, v)
			}
			pending = rest
			resmgrStop(tw)
			if len(pending) == 0 {
				return
			}
			continue
		}
		resmgrStop(tw)
		seqs = append(seqs, so.String())
	}
	for _, v := range pending {
		res.Violate(v.Property, v.Clause, v.Signature, w.step, "%s", v.Detail)
	}
	if matched {
		return
	}
	cause := ""
	diff := ""
	if len(seqs) > 0 {
		diff = firstDiffLines(seqs[0], obs.String())
	}
	res.Violate("C15", "serializable", "C15 not-serializable"+cause, w.step,
		"the plugin state after the concurrent requests %v (%d scheduling decisions) equals that of none of the %d sequential orders; against the first order:\n%s", names, len(sched.Choices), len(perms), diff)
}

func resmgrStop(w *world) {
	defer func() { recover() }()
	resmgr.VerifStopEvents(w.rm)
}

type concState struct {
	inCall   map[string]int    // task -> depth of handler calls in progress
	lockSeq  map[string]int    // task -> order of its first acquisition of the pipeline lock
	unlocked map[string]string // task/kind -> first unprotected access
	finished []int
	pushedBy map[string][][]*nri.ContainerUpdate
}

func samePerm(a, b []int) bool {
	if len(a) != len(b) {
		return false
	}
	for i := range a {
		if a[i] != b[i] {
			return false
		}
	}
	return true
}

func permutations(n int) [][]int {
	var out [][]int
	var rec func(cur []int, used []bool)
	rec = func(cur []int, used []bool) {
		if len(cur) == n {
			out = append(out, append([]int(nil), cur...))
			return
		}
		for i := 0; i < n; i++ {
			if !used[i] {
				used[i] = true
				rec(append(cur, i), used)
				used[i] = false
			}
		}
	}
	rec(nil, make([]bool, n))
	return out
}

// podResScenario: "a pod's resources that are being fetched asynchronously are
// observed by every later reader once the fetch has been started". The real
// cache's InsertPod starts the fetch; a reader that comes after InsertPod has
// returned must see what the fetch delivers, whenever the kubelet answers and
// however the fetch goroutine is scheduled.
func (w *world) podResScenario() {
	vw, res := w.vw, w.res
	cch := w.cache()
	sched := vw.NewSched("podres")
	want := &podresapi.PodResources{PodResources: &podresv1.PodResources{Name: "pr-pod", Namespace: "default",
		Containers: []*podresv1.ContainerResources{{Name: "c0", CpuIds: []int64{1, 2}}}}}
	ch := make(chan *podresapi.PodResources, 1)
	var got *podresapi.PodResources
	read := false
	sched.Spawn("handler", func() {
		pod := cch.InsertPod(&nri.PodSandbox{Id: "pr-pod-id", Name: "pr-pod", Namespace: "default", Uid: "pr-uid"}, ch)
		verifrt.Yield("between RunPodSandbox and CreateContainer")
		got = pod.GetPodResources()
		read = true
	})
	sched.Spawn("kubelet", func() {
		ch <- want
		close(ch)
	})
	vw.SetRequest("podres")
	vw.SetSched(sched)
	sched.Run()
	vw.SetSched(nil)
	if os.Getenv("VERIF_TRACE") != "" {
		fmt.Fprintf(os.Stderr, "TRACE podres: choices=%d read=%v got=%v deadlock=%q\n", sched.Choices, read, got, sched.Deadlock)
	}
	res.Check("pod-resources-observed")
	res.State(sim.Hash64("podres", fmt.Sprint(sched.Choices)))
	switch {
	case sched.Deadlock != "":
		w.dead = true
		res.Violate("C15", "no-deadlock", "C15 deadlock pod-resources-fetch", w.step, "InsertPod + GetPodResources never completed: %s", sched.Deadlock)
	case read && got != want:
		res.Violate("C15", "pod-resources-observed", "C15 pod-resources-missed-by-later-reader", w.step,
			"a reader calling GetPodResources after InsertPod had returned got %v although the fetch started by InsertPod delivers %v (%d scheduling decisions)", got, want.PodResources, len(sched.Choices))
	}
	cch.DeletePod("pr-pod-id")
}
