package main

import (
	"fmt"
	cpucontrol "github.com/containers/nri-plugins/pkg/resmgr/control/cpu"
	"sort"
	"strings"
	"verifh/sim"

	balloons "github.com/containers/nri-plugins/cmd/plugins/balloons/policy"
)

func (o *oracles) balSnap() *balloons.VerifSnap {
	if o.w.plan.Policy != "balloons" {
		return nil
	}
	return balloons.VerifSnapshot(o.w.backend())
}

func (o *oracles) balloonsDump() string {
	sn := o.balSnap()
	if sn == nil {
		return ""
	}
	var b strings.Builder
	for _, bl := range sn.Balloons {
		fmt.Fprintf(&b, "B %s[%d] cpus=%s idle=%s n=%d;", bl.Def, bl.Instance, bl.Cpus, bl.SharedIdleCpus, len(bl.Members))
	}
	return b.String()
}

// balloonOf returns the balloon holding the container (nil if none) and how
// many balloons list it.
func balloonOf(sn *balloons.VerifSnap, id string) (*balloons.VerifBalloon, int) {
	var found *balloons.VerifBalloon
	n := 0
	for i := range sn.Balloons {
		for _, cs := range sn.Balloons[i].Members {
			for _, c := range cs {
				if c == id {
					n++
					found = &sn.Balloons[i]
				}
			}
		}
	}
	return found, n
}

func (o *oracles) balloonTypePinMemoryOff(y *rCtr) bool {
	sn := o.balSnap()
	if sn == nil {
		return false
	}
	if b, _ := balloonOf(sn, y.spec.ID); b != nil && b.PinMemory != nil {
		return !*b.PinMemory
	}
	return false
}

func (o *oracles) balloonTypePinMemoryOn(y *rCtr) bool {
	sn := o.balSnap()
	if sn == nil {
		return false
	}
	if b, _ := balloonOf(sn, y.spec.ID); b != nil && b.PinMemory != nil {
		return *b.PinMemory
	}
	return false
}

// unitsOf returns the CPU sets of the topology units at the given sharing
// level, from the machine model.
func (o *oracles) unitsOf(level string) []cset {
	m := o.w.plan.Machine
	groups := map[string]cset{}
	for _, c := range m.CPUs {
		if !c.Online {
			continue
		}
		var k string
		switch level {
		case "system":
			k = "sys"
		case "package":
			k = fmt.Sprint(c.Pkg)
		case "die":
			k = fmt.Sprint(c.Pkg, "/", c.Die)
		case "numa":
			k = fmt.Sprint(c.Node)
		case "l2cache":
			k = fmt.Sprint("l2-", c.L2ID)
		case "core":
			k = fmt.Sprint(c.Pkg, "/", c.Core)
		case "thread":
			k = fmt.Sprint("t", c.ID)
		default:
			continue
		}
		if groups[k] == nil {
			groups[k] = cset{}
		}
		groups[k][c.ID] = true
	}
	keys := make([]string, 0, len(groups))
	for k := range groups {
		keys = append(keys, k)
	}
	sort.Strings(keys)
	var out []cset
	for _, k := range keys {
		out = append(out, groups[k])
	}
	return out
}

// readmitEvidence: the policy logged at least as many failed re-admissions in
// the last request as there are containers that came out of it without a
// balloon (the message does not always name the container).
func (o *oracles) readmitEvidence(sn *balloons.VerifSnap) bool {
	w := o.w
	none := 0
	for _, y := range w.rt.active() {
		if w.cpuPreserved(y) || o.balloonsPreserveRule(y) {
			continue
		}
		if _, n := balloonOf(sn, y.spec.ID); n == 0 && (y.lostGrant == "" || strings.HasPrefix(y.lostGrant, "failed-reallocation-on-"+o.lastKind)) {
			none++
		}
	}
	return len(sim.LogLines(markReadmitFailed)) >= none
}

func (o *oracles) checkC02(rep0 reporter) {
	w := o.w
	// one cause label per signature (balloons): a configuration update was
	// rejected and reverted by rebuilding all balloons (F22), or an accepted
	// reconfiguration rebuilt them (F15/F23)
	rep := func(clause, sig string, format string, a ...any) {
		has := strings.Contains(sig, "after-") || strings.Contains(sig, "capped-by") || strings.Contains(sig, "no-idle")
		if !has {
			switch {
			case w.rejectedReconf:
				sig += " after-rejected-reconfigure"
			case w.reconfiguredInc:
				sig += " after-reconfiguration"
			}
		}
		rep0(clause, sig, format, a...)
	}
	sn := o.balSnap()
	if sn == nil {
		return
	}
	res := w.res
	avail := o.available()
	isolated := setOf(w.plan.Machine.IsolatedCPUs())
	free := parseSet(sn.FreeCpus)
	all := cset{}
	name := func(b *balloons.VerifBalloon) string { return fmt.Sprintf("%s[%d]", b.Def, b.Instance) }
	// partition
	for i := range sn.Balloons {
		bi := &sn.Balloons[i]
		ci := parseSet(bi.Cpus)
		res.Check("balloons-disjoint")
		for j := i + 1; j < len(sn.Balloons); j++ {
			if c := ci.inter(parseSet(sn.Balloons[j].Cpus)); len(c) > 0 {
				rep("balloons-disjoint", "balloons-disjoint", "balloons %s and %s both own CPUs %s", name(bi), name(&sn.Balloons[j]), c)
			}
		}
		res.Check("balloons-within-available")
		if c := ci.minus(avail); len(c) > 0 {
			rep("balloons-within-available", "balloons-within-available", "balloon %s owns CPUs %s outside the available set %s", name(bi), c, avail)
		}
		all = all.union(ci)
	}
	res.Check("free-is-complement")
	if want := avail.minus(all); !want.equal(free) {
		rep("free-is-complement", "free-is-complement", "idle CPUs are %q but available minus all balloons is %q", free, want)
	}
	// shared idle CPUs
	for i := range sn.Balloons {
		b := &sn.Balloons[i]
		idle := parseSet(b.SharedIdleCpus)
		own := parseSet(b.Cpus)
		if len(idle) > 0 {
			res.Probe("balloon-shares-idle-cpus")
		}
		res.Check("shared-idle-not-in-balloon")
		if c := idle.inter(all); len(c) > 0 {
			rep("shared-idle-not-in-balloon", "shared-idle-not-in-balloon", "balloon %s shares idle CPUs %s that belong to a balloon", name(b), c)
		}
		if c := idle.inter(isolated); len(c) > 0 {
			rep("shared-idle-not-isolated", "shared-idle-not-isolated", "balloon %s shares kernel-isolated CPUs %s as idle CPUs", name(b), c)
		}
		if b.ShareIdle != "" && len(own) > 0 {
			res.Check("shared-idle-complete")
			want := cset{}
			for _, u := range o.unitsOf(b.ShareIdle) {
				if len(u.inter(own)) > 0 {
					want = want.union(u.inter(free).minus(isolated))
				}
			}
			if miss := want.minus(idle); len(miss) > 0 {
				ctx := ""
				if o.lastErr {
					ctx = " after-failed-" + o.lastKind
				} else if len(sim.LogLines(markReadmitFailed)) > 0 {
					// the same undo path, reached through a re-admission that
					// failed inside Synchronize/Reconfigure (only logged)
					ctx = " after-failed-readmission"
				}
				rep("shared-idle-complete", "shared-idle-complete"+ctx, "balloon %s (cpus %s, shares idle CPUs in same %s) lacks idle CPUs %s of its sharing scope (has %q, idle CPUs are %q)", name(b), b.Cpus, b.ShareIdle, miss, b.SharedIdleCpus, sn.FreeCpus)
			}
		}
	}
	// every available CPU carries the CPU class of its balloon or else the
	// idle class (the assignment entry the cpu controller keeps in the cache)
	{
		classOf := map[int]string{}
		for class, ids := range cpucontrol.VerifAssignments(w.cache()) {
			for _, id := range ids {
				classOf[id] = class
			}
		}
		want := map[int]string{}
		owner := map[int]string{}
		for id := range avail {
			want[id], owner[id] = sn.IdleCpuClass, "idle"
		}
		for i := range sn.Balloons {
			b := &sn.Balloons[i]
			for id := range parseSet(b.Cpus) {
				want[id], owner[id] = b.CpuClass, name(b)
			}
		}
		res.Check("cpu-class-follows-balloon")
		for _, id := range sortedInts(want) {
			if got, ok := classOf[id]; !ok || got != want[id] {
				ctx := ""
				if o.lastErr {
					ctx = " after-failed-" + o.lastKind
				}
				rep("cpu-class-follows-balloon", "cpu-class-follows-balloon"+ctx, "CPU %d belongs to %s and should carry CPU class %q, the cached class assignment says %q (assigned: %v)", id, owner[id], want[id], got, ok)
				break
			}
		}
	}
	// limits per user-defined type
	count := map[string]int{}
	defOf := map[string]*balloons.VerifBalloon{}
	for i := range sn.Balloons {
		b := &sn.Balloons[i]
		count[b.Def]++
		defOf[b.Def] = b
		if b.Def == "reserved" || b.Def == "default" {
			continue
		}
		n := len(parseSet(b.Cpus))
		res.Check("cpu-limits")
		if n < b.MinCpus {
			rep("cpu-limits", "cpu-limits min", "balloon %s has %d CPUs, its type requires at least %d", name(b), n, b.MinCpus)
		}
		if b.MaxCpus > 0 && n > b.MaxCpus {
			rep("cpu-limits", "cpu-limits max", "balloon %s has %d CPUs, its type allows at most %d", name(b), n, b.MaxCpus)
		}
	}
	if w.cfg.Balloons != nil {
		for _, t := range w.cfg.Balloons.Types {
			res.Check("instance-limits")
			n := count[t.Name]
			if n < t.MinBalloons {
				rep("instance-limits", "instance-limits min", "balloon type %s has %d instances, configured minimum is %d", t.Name, n, t.MinBalloons)
			}
			if t.MaxBalloons > 0 && n > t.MaxBalloons {
				rep("instance-limits", "instance-limits max", "balloon type %s has %d instances, configured maximum is %d", t.Name, n, t.MaxBalloons)
			}
		}
	}
	// membership, confinement, size
	reqOf := map[*balloons.VerifBalloon]int{}
	for _, y := range w.rt.active() {
		if w.cpuPreserved(y) || o.balloonsPreserveRule(y) {
			continue
		}
		b, n := balloonOf(sn, y.spec.ID)
		res.Check("exactly-one-balloon")
		if n != 1 {
			how := "none"
			if n > 1 {
				how = "several"
			}
			if n == 0 && y.lostGrant == "" && (o.lastKind == "sync" || o.lastKind == "restart" || o.lastKind == "reconfigure") {
				if o.readmitEvidence(sn) {
					y.lostGrant = "failed-reallocation-on-" + o.lastKind
				} else {
					// nothing says the policy even tried
					how = "none not-readmitted-on-" + o.lastKind
				}
			}
			if n == 0 && y.lostGrant != "" {
				how = "none after-" + y.lostGrant
			}
			rep("exactly-one-balloon", "exactly-one-balloon "+how, "managed container %s (%s, %d mCPU) is in %d balloons", y.spec.ID, y.pod.spec.Namespace, y.cur.MilliCPU, n)
			continue
		}
		if !y.reqUnsure && !y.updated {
			reqOf[b] += y.cur.MilliCPU
		} else {
			reqOf[b] = -1 << 30
		}
		if o.cpuOptedOut(y) || !y.t.CpusSet {
			continue
		}
		res.Check("confined-to-balloon")
		allowed := parseSet(b.Cpus).union(parseSet(b.SharedIdleCpus))
		told := parseSet(y.t.Cpus)
		hide := b.HideHT
		if v, ok := annTrue(y.pod.spec, y.spec.Name, "hide-hyperthreads."+rns); ok {
			hide = v // the annotation overrides the balloon type's setting
		}
		if !hide {
			if !told.equal(allowed) {
				rep("confined-to-balloon", "confined-to-balloon", "container %s is in balloon %s (cpus %q + shared idle %q) but has been told cpuset %q", y.spec.ID, name(b), b.Cpus, b.SharedIdleCpus, y.t.Cpus)
			}
		} else {
			res.Probe("hyperthreads-hidden")
			ok := told.subsetOf(allowed)
			for _, core := range o.unitsOf("core") {
				in := core.inter(allowed)
				if len(in) > 0 && len(core.inter(told)) != 1 {
					ok = false
				}
			}
			if !ok {
				rep("confined-to-balloon", "confined-to-balloon hidden-hyperthreads", "container %s is in balloon %s (cpus %q + shared idle %q, hyperthreads hidden) but has been told cpuset %q, not one thread per core of that set", y.spec.ID, name(b), b.Cpus, b.SharedIdleCpus, y.t.Cpus)
			}
		}
	}
	for i := range sn.Balloons {
		b := &sn.Balloons[i]
		if len(b.Members) == 0 {
			continue
		}
		n := len(parseSet(b.Cpus))
		res.Check("nonempty-balloon-size")
		if n < 1 {
			rep("nonempty-balloon-size", "nonempty-balloon-size zero", "balloon %s has containers but no CPU", name(b))
		}
		if b.Def == "reserved" {
			continue // the reserved balloon is the fixed reserved set
		}
		if r := reqOf[b]; r > 1000*n {
			cause := ""
			if b.MaxCpus > 0 && n >= b.MaxCpus {
				cause = " capped-by-maxCPUs"
			} else if len(free) == 0 {
				cause = " no-idle-cpus-left"
			}
			rep("nonempty-balloon-size", "nonempty-balloon-size requests"+cause, "balloon %s has %d CPUs (%s) but its containers request %d mCPU", name(b), n, b.Cpus, r)
		}
	}
}

func sortedInts(m map[int]string) []int {
	out := make([]int, 0, len(m))
	for k := range m {
		out = append(out, k)
	}
	sort.Ints(out)
	return out
}
