package main

import (
	"fmt"
	"sort"
	"strings"

	"verifh/machine"
	"verifh/verifrt"
)

const rns = "resource-policy.nri.io"

type genState struct {
	r        *verifrt.Rand
	m        *machine.Machine
	prop     string
	faults   bool
	policy   string
	pods     []*PodSpec
	podLive  map[string]bool
	ctrs     []*CtrSpec
	ctrSt    map[string]string // creating created running stopped removed
	npod     int
	nctr     int
	nodeMem  int64
	memHeavy bool // this run sizes memory limits around node capacities (zone widening)
}

func boolp(b bool) *bool { return &b }

func policyFor(prop string, r *verifrt.Rand) string {
	switch prop {
	case "C01", "C03", "C16":
		return "topology-aware"
	case "C02":
		return "balloons"
	}
	if r.Chance(0.5) {
		return "balloons"
	}
	return "topology-aware"
}

func genTACfg(r *verifrt.Rand, m *machine.Machine) *CfgSpec {
	c := &CfgSpec{Policy: "topology-aware", PinCPU: !r.Chance(0.08), PinMemory: !r.Chance(0.12)}
	online := m.Online()
	iso := map[int]bool{}
	for _, i := range m.IsolatedCPUs() {
		iso[i] = true
	}
	avail := online
	if r.Chance(0.3) && len(online) > 3 {
		// drop a few CPUs from the available set
		drop := map[int]bool{}
		for k := r.Range(1, 3); k > 0; k-- {
			drop[online[1+r.Intn(len(online)-1)]] = true
		}
		avail = nil
		for _, i := range online {
			if !drop[i] {
				avail = append(avail, i)
			}
		}
		c.Available = machine.ListString(avail)
	}
	var normal []int
	for _, i := range avail {
		if !iso[i] {
			normal = append(normal, i)
		}
	}
	if len(normal) == 0 {
		normal = avail
	}
	switch r.Intn(5) {
	case 0, 1, 2:
		n := 1
		if len(normal) > 4 && r.Chance(0.4) {
			n = 2
		}
		res := []int{normal[0]}
		if n == 2 {
			res = append(res, normal[1])
		}
		if r.Chance(0.3) {
			res = []int{normal[r.Intn(len(normal))]}
		}
		sort.Ints(res)
		c.Reserved = "cpuset:" + machine.ListString(res)
	case 3:
		c.Reserved = verifrt.Pick(r, []string{"750m", "1", "1500m", "2"})
	case 4:
		c.Reserved = "500m"
	}
	switch r.Intn(4) {
	case 0:
		c.PreferIsolated = boolp(true)
	case 1:
		c.PreferIsolated = boolp(false)
	}
	switch r.Intn(5) {
	case 0:
		c.PreferShared = boolp(true)
	case 1:
		c.PreferShared = boolp(false)
	}
	if r.Chance(0.3) {
		c.ResNS = []string{"reserved-*", "monitoring"}
	}
	c.ColocatePods = r.Chance(0.2)
	c.ColocateNS = r.Chance(0.2)
	if r.Chance(0.3) {
		c.DefaultPrio = verifrt.Pick(r, []string{"high", "normal", "low", "none"})
	}
	return c
}

func (g *genState) newPod() *PodSpec {
	r := g.r
	g.npod++
	p := &PodSpec{ID: fmt.Sprintf("pod%d", g.npod), Name: fmt.Sprintf("p%d", g.npod)}
	p.Namespace = verifrt.Pick(r, []string{"default", "default", "default", "ns1", "kube-system", "reserved-a", "monitoring"})
	if len(g.pods) > 0 && r.Chance(0.08) && g.prop != "C15" {
		// a pod re-created under the name of an earlier one (new sandbox id)
		// while the old one may still be around
		old := verifrt.Pick(r, g.pods)
		p.Name, p.Namespace = old.Name, old.Namespace
	}
	p.QoS = verifrt.Pick(r, []string{"Guaranteed", "Guaranteed", "Guaranteed", "Burstable", "Burstable", "BestEffort"})
	p.Labels = map[string]string{"app": fmt.Sprintf("a%d", r.Intn(3))}
	ann := map[string]string{}
	names := []string{"c0", "c1", "c2"}
	form := func(key string) string {
		switch r.Intn(3) {
		case 0:
			return key + "/container." + verifrt.Pick(r, names)
		case 1:
			return key + "/pod"
		}
		return key
	}
	tf := func() string { return verifrt.Pick(r, []string{"true", "false"}) }
	if r.Chance(0.25) {
		ann[form("prefer-shared-cpus."+rns)] = tf()
	}
	if r.Chance(0.25) {
		ann[form("prefer-isolated-cpus."+rns)] = tf()
	}
	if r.Chance(0.1) {
		ann[form("prefer-reserved-cpus."+rns)] = tf()
	}
	if r.Chance(0.12) {
		ann[form("hide-hyperthreads."+rns)] = tf()
	}
	if r.Chance(0.1) || g.prop == "C12" && r.Chance(0.35) {
		ann[form("cpu.preserve."+rns)] = "true"
	}
	if r.Chance(0.1) || g.prop == "C12" && r.Chance(0.35) {
		ann[form("memory.preserve."+rns)] = "true"
	}
	if r.Chance(0.2) || g.prop == "C04" && r.Chance(0.3) {
		ann[form("memory-type."+rns)] = verifrt.Pick(r, []string{"dram", "pmem", "dram,pmem", "hbm", "hbm,dram", "dram,pmem,hbm"})
	}
	if r.Chance(0.08) {
		ann[form("cold-start."+rns)] = "duration: 30s"
	}
	if g.policy == "topology-aware" && g.hasPMEM() && r.Chance(0.2) {
		// a pod whose containers really go through a cold-start period
		ann["memory-type."+rns+"/pod"] = verifrt.Pick(r, []string{"pmem,dram", "dram,pmem", "dram,pmem,hbm"})
		ann["cold-start."+rns+"/pod"] = "duration: 30s"
		delete(ann, "memory-type."+rns)
		delete(ann, "cold-start."+rns)
	}
	if r.Chance(0.1) {
		ann[form("prefer-cpu-priority."+rns)] = verifrt.Pick(r, []string{"high", "normal", "low", "none"})
	}
	if r.Chance(0.08) {
		ann[form("rdtclass."+rns)] = verifrt.Pick(r, []string{"gold", "silver"})
	}
	if r.Chance(0.08) {
		ann[form("blockioclass."+rns)] = verifrt.Pick(r, []string{"fast", "slow"})
	}
	if g.policy == "balloons" && r.Chance(0.2) {
		ann[form("balloon.balloons."+rns)] = verifrt.Pick(r, []string{"bt0", "bt1", "default", "reserved"})
	}
	// container affinities (topology-aware): simple and full notation
	if g.policy == "topology-aware" && r.Chance(0.12) {
		key := "resource-policy.nri.io/" + verifrt.Pick(r, []string{"affinity", "anti-affinity"})
		if r.Chance(0.5) {
			ann[key] = "c0: [ c1, c2 ]\nc1: [ c0 ]\n"
		} else {
			ann[key] = "c0:\n  - scope:\n      key: pod/name\n      operator: Matches\n      values: [ \"p*\" ]\n    match:\n      key: name\n      operator: In\n      values: [ c1, c2 ]\n    weight: " + fmt.Sprint(r.Range(1, 50)) + "\n"
		}
	}
	if g.prop == "C14" && r.Chance(0.5) {
		// well-formed YAML in full notation, semantically off
		key := "resource-policy.nri.io/" + verifrt.Pick(r, []string{"affinity", "anti-affinity"})
		expr := func() string {
			k := verifrt.Pick(r, []string{"name", "pod/name", "labels/app", ":", ":a", "::", ":,", ":ab", ":/pod/name/name", "", "pod/labels/", "/"})
			op := verifrt.Pick(r, []string{"Equals", "In", "Exists", "Matches", "Foo", "", "AlwaysTrue", "NotIn", "MatchesAny"})
			vals := verifrt.Pick(r, []string{"[]", "[ a ]", "[ a, b ]", "[ \"[\" ]", "[ \"\" ]"})
			return fmt.Sprintf("{ key: %q, operator: %q, values: %s }", k, op, vals)
		}
		v := ""
		for _, n := range []string{"c0", "c1", "c2"} {
			if r.Chance(0.6) {
				v += n + ":\n  - scope: " + expr() + "\n"
				if r.Chance(0.8) {
					v += "    match: " + expr() + "\n"
				}
				v += "    weight: " + verifrt.Pick(r, []string{"1", "0", "-5", "2147483647"}) + "\n"
			}
		}
		if v != "" {
			ann[key] = v
		}
	}
	if g.prop == "C14" {
		bad := []string{"", "{", "[1,2", "yes", "1e9", "-1", "true\n", "- a\n b", "\x00", "0-", "a,b,,", "999999999999999999999", "nil", "{\"a\":}", "duration: x", "- scope:\n    key: pod/name\n    operator: Foo\n", strings.Repeat("x", 5000)}
		keys := []string{"prefer-shared-cpus", "prefer-isolated-cpus", "prefer-reserved-cpus", "hide-hyperthreads", "cpu.preserve", "memory.preserve", "memory-type", "cold-start", "affinity", "anti-affinity", "topologyhints", "allow.topologyhints", "deny.topologyhints", "prefer-cpu-priority", "rdtclass", "blockioclass", "balloon.balloons", "toptierlimit"}
		for k := r.Range(0, 4); k > 0; k-- {
			ann[form(verifrt.Pick(r, keys)+"."+rns)] = verifrt.Pick(r, bad)
		}
	}
	if len(ann) > 0 {
		p.Annotations = ann
	}
	return p
}

func (g *genState) hasPMEM() bool {
	for _, n := range g.m.Nodes {
		if n.Type == "pmem" {
			return true
		}
	}
	return false
}

func (g *genState) cpuChoices(qos string) int {
	r := g.r
	ncpu := len(g.m.Online())
	switch qos {
	case "BestEffort":
		return 0
	case "Burstable":
		return verifrt.Pick(r, []int{10, 100, 250, 500, 900, 1000, 1500, 2000, 3300})
	}
	// Guaranteed: multiples of 125 from one CPU up carry exactly through cpu.shares
	c := verifrt.Pick(r, []int{100, 250, 500, 750, 999, 1000, 1000, 1125, 1500, 2000, 2000, 2500, 3000, 4000, 6000})
	if g.prop == "C03" && r.Chance(0.3) {
		// fill pools to the last milli-CPU: sized against the machine
		c = verifrt.Pick(r, []int{1000 * (ncpu / 2), 1000*ncpu/4 + 500, 1000 * (ncpu - 2), 875})
		if c <= 0 {
			c = 1000
		}
	}
	return c
}

func (g *genState) newCtr(pod *PodSpec) *CtrSpec {
	r := g.r
	g.nctr++
	c := &CtrSpec{ID: fmt.Sprintf("ctr%d", g.nctr), Pod: pod.ID, Name: verifrt.Pick(r, []string{"c0", "c1", "c2"})}
	c.MilliCPU = g.cpuChoices(pod.QoS)
	if g.prop == "C14" {
		c.NoLinux, c.NoResources, c.NoCPU, c.NoMemory = r.Chance(0.1), r.Chance(0.1), r.Chance(0.15), r.Chance(0.15)
	}
	switch pod.QoS {
	case "Guaranteed":
		c.LimitCPU = c.MilliCPU
		c.MemLimit = g.memChoice()
		c.MemReq = c.MemLimit
	case "Burstable":
		if r.Chance(0.5) {
			c.LimitCPU = c.MilliCPU * 2
		}
		if r.Chance(0.7) {
			c.MemLimit = g.memChoice()
		}
		c.MemReq = g.memChoice() / 4
		if c.MemLimit > 0 && c.MemReq > c.MemLimit {
			c.MemReq = c.MemLimit / 2
		}
	}
	if g.prop == "C12" && r.Chance(0.15) {
		// the container arrives with memory nodes of its own (set by the
		// runtime or by a plugin earlier in the chain): one DRAM node
		var dram []int
		for _, n := range g.m.Nodes {
			if n.Type == "dram" && n.MemKB > 0 {
				dram = append(dram, n.ID)
			}
		}
		if len(dram) > 0 {
			c.InitMems = fmt.Sprint(verifrt.Pick(r, dram))
		}
	}
	return c
}

func (g *genState) memChoice() int64 {
	r := g.r
	base := g.nodeMem
	if base <= 0 {
		base = 1 << 30
	}
	heavy := g.prop == "C04" || g.prop == "C09" || g.prop == "C11" || g.memHeavy
	switch r.Intn(8) {
	case 0:
		return 64 << 20
	case 1, 2:
		return base / int64(r.Range(8, 32))
	case 3, 4:
		return base / int64(r.Range(2, 5))
	case 5:
		if heavy {
			return base - base/int64(r.Range(4, 16))
		}
		return base / 3
	case 6:
		if heavy {
			return base + base/int64(r.Range(2, 8))
		}
		return base / 2
	}
	return base / int64(r.Range(3, 10))
}

func (g *genState) livePods() []*PodSpec {
	var out []*PodSpec
	for _, p := range g.pods {
		if g.podLive[p.ID] {
			out = append(out, p)
		}
	}
	return out
}

func (g *genState) ctrsIn(states ...string) []*CtrSpec {
	var out []*CtrSpec
	for _, c := range g.ctrs {
		for _, s := range states {
			if g.ctrSt[c.ID] == s {
				out = append(out, c)
			}
		}
	}
	return out
}

func genPlan(prop, tier string, seed uint64, faults bool) *Plan {
	r := verifrt.NewRand(verifrt.Mix(seed, "gen"))
	pol := policyFor(prop, r)
	mo := machine.Options{MaxCPUs: 64, AllowSpecial: true, AllowNoMem: true, Symmetric: true}
	if tier == "quick" {
		mo.MaxCPUs = 32
	}
	// offline CPUs: only where discovery itself is the subject
	mo.AllowOffline = true // offline cores (20% of the machines)
	m := machine.Generate(verifrt.NewRand(verifrt.Mix(seed, "machine")), mo)
	p := &Plan{Policy: pol, Machine: m, Order: int(verifrt.OrderSeeded)}
	if r.Chance(0.15) {
		p.Order = int(verifrt.OrderCanonical)
	}
	if pol == "balloons" {
		p.Cfg = genBalloonsCfg(r, m)
	} else {
		p.Cfg = genTACfg(r, m)
	}
	g := &genState{r: r, m: m, prop: prop, faults: faults, policy: pol, podLive: map[string]bool{}, ctrSt: map[string]string{}}
	for _, n := range m.Nodes {
		if n.Type == "dram" && int64(n.MemKB)*1024 > g.nodeMem {
			g.nodeMem = int64(n.MemKB) * 1024
		}
	}
	g.memHeavy = prop == "C12" && r.Chance(0.4) // opted-out containers next to memory-zone widening
	nops := r.Range(20, 80)
	if tier == "quick" {
		nops = r.Range(15, 50)
	}
	if prop == "C15" {
		nops = r.Range(4, 30)
	}
	maxLive := 24
	for i := 0; i < nops; i++ {
		op := Op{N: i + 1}
		active := g.ctrsIn("created", "running")
		created := g.ctrsIn("created")
		stopped := g.ctrsIn("stopped")
		// weights: run-pod create start update stop remove stop-pod remove-pod reconfigure restart sync
		w := []int{10, 30, 14, 8, 14, 10, 2, 2, 3, 2, 1, 0}
		running := g.ctrsIn("running")
		if pol == "topology-aware" && len(running) > 0 && (prop == "C04" || prop == "C12" || prop == "C05" || prop == "C03" || prop == "C01" || prop == "C09" || prop == "C13" || prop == "C11") {
			w[11] = 3
			for _, c := range running {
				for _, pd := range g.pods {
					if pd.ID == c.Pod && pd.Annotations["cold-start."+rns+"/pod"] != "" {
						w[11] = 12
					}
				}
			}
		}
		switch prop {
		case "C13":
			w[8] = 10
		case "C11":
			w[9] = 8
			w[10] = 3
		case "C09":
			w[8], w[9], w[10] = 5, 3, 3
		case "C02":
			// the property quantifies over create/stop/remove/synchronize/
			// reconfigure histories (the balloons policy ignores resource updates)
			w[3] = 0
			w[8], w[9], w[10] = 4, 2, 2
		case "C05", "C12":
			w[8], w[3] = 5, 12
		case "C15":
			w[8], w[9], w[10] = 3, 1, 1
		}
		if len(g.livePods()) == 0 {
			w[0] = 40
			w[1], w[6] = 0, 0
		}
		if len(g.pods) == 0 {
			w[7] = 0
		}
		if len(active) >= maxLive {
			w[1] = 0
		}
		if len(created) == 0 {
			w[2] = 0
		}
		if len(active) == 0 {
			w[3], w[4] = 0, 0
		}
		if len(stopped) == 0 {
			w[5] = 0
			if len(created) > 0 {
				w[5] = 2
			}
		}
		if prop == "C14" && r.Chance(0.3) {
			// out-of-protocol event
			evs := []string{"CreateContainer", "StartContainer", "UpdateContainer", "StopContainer", "RemoveContainer", "StopPodSandbox", "RemovePodSandbox", "RunPodSandbox"}
			op.Kind, op.Ev = "x", verifrt.Pick(r, evs)
			switch r.Intn(4) {
			case 0: // unknown id
				op.ID, op.Fault = fmt.Sprintf("ghost%d", r.Intn(5)), "unknown-id"
			case 1: // duplicate / reordered event for a container the plugin knows (or knew)
				if len(g.ctrs) > 0 {
					op.ID, op.Fault = verifrt.Pick(r, g.ctrs).ID, "dup"
				} else {
					op.ID, op.Fault = "ghost0", "unknown-id"
				}
			case 2: // pod-level event for a pod id
				if len(g.pods) > 0 {
					op.ID, op.Fault = verifrt.Pick(r, g.pods).ID, "dup"
				} else {
					op.ID, op.Fault = "ghost-pod", "unknown-id"
				}
			case 3: // a container of an unknown pod / with absent sub-messages
				op.ID, op.Fault = fmt.Sprintf("ghost%d", 5+r.Intn(5)), "unknown-id"
			}
			c := &CtrSpec{ID: op.ID, Name: "ghost", MilliCPU: r.Intn(3000), NoLinux: r.Chance(0.3), NoResources: r.Chance(0.3), NoCPU: r.Chance(0.3), NoMemory: r.Chance(0.3)}
			if len(g.pods) > 0 && r.Chance(0.5) {
				c.Pod = verifrt.Pick(r, g.pods).ID
			}
			op.Ctr = c
			p.Ops = append(p.Ops, op)
			continue
		}
		switch r.Weighted(w) {
		case 0:
			pod := g.newPod()
			g.pods = append(g.pods, pod)
			g.podLive[pod.ID] = true
			op.Kind, op.Pod = "run-pod", pod
		case 1:
			pod := verifrt.Pick(r, g.livePods())
			c := g.newCtr(pod)
			// the kubelet never runs two instances of the same container of
			// a pod at once: the name must be free or its holder stopped
			free := []string{}
			for _, n := range []string{"c0", "c1", "c2"} {
				used := false
				for _, o := range g.ctrs {
					if o.Pod == pod.ID && o.Name == n && (g.ctrSt[o.ID] == "created" || g.ctrSt[o.ID] == "running") {
						used = true
					}
				}
				if !used {
					free = append(free, n)
				}
			}
			if len(free) == 0 {
				g.nctr--
				continue
			}
			c.Name = verifrt.Pick(r, free)
			g.ctrs = append(g.ctrs, c)
			g.ctrSt[c.ID] = "created"
			op.Kind, op.Ctr = "create", c
		case 2:
			c := verifrt.Pick(r, created)
			g.ctrSt[c.ID] = "running"
			op.Kind, op.ID = "start", c.ID
		case 3:
			c := verifrt.Pick(r, active)
			op.Kind, op.ID = "update", c.ID
			var pod *PodSpec
			for _, p := range g.pods {
				if p.ID == c.Pod {
					pod = p
				}
			}
			op.MCPU = g.cpuChoices(pod.QoS)
			if r.Chance(0.4) {
				op.Mem = g.memChoice()
			}
			if r.Chance(0.2) {
				op.MCPU = c.MilliCPU // identical resources
			}
		case 4:
			c := verifrt.Pick(r, active)
			g.ctrSt[c.ID] = "stopped"
			op.Kind, op.ID = "stop", c.ID
		case 5:
			var c *CtrSpec
			if len(created) > 0 && (len(stopped) == 0 || r.Chance(0.2)) {
				// created, never started: removed without being stopped
				c = verifrt.Pick(r, created)
				op.Ev = "never-started"
			} else {
				c = verifrt.Pick(r, stopped)
			}
			g.ctrSt[c.ID] = "removed"
			op.Kind, op.ID = "remove", c.ID
		case 6:
			pod := verifrt.Pick(r, g.livePods())
			op.Kind, op.ID = "stop-pod", pod.ID
		case 7:
			if len(g.pods) == 0 {
				continue
			}
			pod := verifrt.Pick(r, g.pods)
			op.Kind, op.ID = "remove-pod", pod.ID
		case 8:
			op.Kind = "reconfigure"
			op.Cfg = g.genReconfigure(p.Cfg)
		case 9:
			op.Kind = "restart"
			// some containers disappear while the plugin is down
			for _, c := range g.ctrsIn("created", "running", "stopped") {
				if r.Chance(0.15) {
					op.Gone = append(op.Gone, c.ID)
					g.ctrSt[c.ID] = "removed"
				}
			}
			if prop == "C11" {
				// ... others change state or appear while it is down: the
				// plugin sees no event for any of that, only the next list
				for _, c := range g.ctrsIn("created", "running") {
					switch {
					case g.ctrSt[c.ID] == "created" && r.Chance(0.2):
						op.DownStart = append(op.DownStart, c.ID)
						g.ctrSt[c.ID] = "running"
					case r.Chance(0.1):
						op.DownStop = append(op.DownStop, c.ID)
						g.ctrSt[c.ID] = "stopped"
					}
				}
				if pods := g.livePods(); len(pods) > 0 && len(g.ctrsIn("created", "running")) < maxLive && r.Chance(0.3) {
					pod := verifrt.Pick(r, pods)
					for _, n := range []string{"c0", "c1", "c2"} {
						used := false
						for _, o := range g.ctrs {
							if o.Pod == pod.ID && o.Name == n && (g.ctrSt[o.ID] == "created" || g.ctrSt[o.ID] == "running") {
								used = true
							}
						}
						if !used {
							c := g.newCtr(pod)
							c.Name = n
							g.ctrs = append(g.ctrs, c)
							g.ctrSt[c.ID] = "created"
							op.DownAdd = append(op.DownAdd, c)
							if r.Chance(0.5) {
								op.DownStart = append(op.DownStart, c.ID)
								g.ctrSt[c.ID] = "running"
							}
							break
						}
					}
				}
			}
		case 10:
			op.Kind = "sync"
		case 11:
			cands := running
			var cold []*CtrSpec
			for _, c := range running {
				for _, pd := range g.pods {
					if pd.ID == c.Pod {
						for k := range pd.Annotations {
							if strings.HasPrefix(k, "cold-start.") {
								cold = append(cold, c)
							}
						}
					}
				}
			}
			if len(cold) > 0 {
				cands = cold
			}
			op.Kind, op.ID = "coldstart-done", verifrt.Pick(r, cands).ID
		}
		if op.Kind == "stop-pod" {
			// generator view: a pod is only stopped once its containers are
			ok := true
			for _, c := range g.ctrs {
				if c.Pod == op.ID && (g.ctrSt[c.ID] == "created" || g.ctrSt[c.ID] == "running") {
					ok = false
				}
			}
			if !ok {
				continue
			}
			g.podLive[op.ID] = false
		}
		if prop == "C11" && r.Chance(0.12) {
			switch op.Kind {
			case "create", "start", "update", "stop", "remove", "run-pod", "stop-pod", "remove-pod":
				op.Crash = r.Range(1, 12)
				op.CrashAfter = r.Chance(0.5)
			}
		}
		if g.faults {
			// fault-injecting batch: the runtime refuses an unsolicited
			// UpdateContainers push; a RunPodSandbox event is lost
			switch {
			case (op.Kind == "reconfigure" || op.Kind == "coldstart-done") && r.Chance(0.35):
				op.Fault = "stub.update-error"
			case op.Kind == "run-pod" && r.Chance(0.06):
				op.Fault = "nri.drop"
			}
		}
		p.Ops = append(p.Ops, op)
	}
	for i := range p.Ops {
		p.Ops[i].N = i + 1
	}
	if prop == "C15" {
		// the schedule is the subject: map iteration order is held canonical so
		// that the sequential reference runs see the same orders
		p.Order = int(verifrt.OrderCanonical)
		p.Metrics = r.Chance(0.5)
		g.genConc(p)
	}
	// a tuning knob no invariant may depend on: debug logging of every source
	// (the policies dump their state in blocks that only run then); drawn last
	p.Debug = r.Chance(0.12)
	return p
}

// genReconfigure derives a configuration update from the initial one:
// identical, a valid change of one option, or an invalid one.
func (g *genState) genReconfigure(base *CfgSpec) *CfgSpec {
	r := g.r
	c := *base
	if base.Balloons != nil {
		b := *base.Balloons
		c.Balloons = &b
	}
	switch r.Intn(10) {
	case 0, 1, 2:
		return &c // identical
	case 3, 4:
		c.Invalid = verifrt.Pick(r, []string{"unparsable-cpuset", "reserved-outside-available", "no-reservation", "unsatisfiable"})
		if c.Policy == "balloons" {
			c.Invalid = verifrt.Pick(r, []string{"unparsable-cpuset", "reserved-outside-available", "duplicate-type", "ill-bounded", "undefined-load-class", "unsatisfiable"})
		}
		applyInvalid(&c, g.m)
		return &c
	}
	// valid change of one option
	if c.Policy == "balloons" {
		mutateBalloonsCfg(r, &c, g.m)
		return &c
	}
	switch r.Intn(7) {
	case 0:
		c.PinCPU = !c.PinCPU
	case 1:
		c.PinMemory = !c.PinMemory
	case 2:
		c.PreferShared = boolp(r.Chance(0.5))
	case 3:
		c.PreferIsolated = boolp(r.Chance(0.5))
	case 4:
		n := genTACfg(r, g.m)
		c.Reserved, c.Available = n.Reserved, n.Available
		if a := g.cutThrough(base); a != "" && r.Chance(0.5) {
			// the available set shrinks by a few CPUs that containers may well
			// hold (kernel-isolated ones first), everything else stays
			c.Reserved, c.Available = base.Reserved, a
		}
	case 5:
		if len(c.ResNS) == 0 {
			c.ResNS = []string{"reserved-*", "monitoring"}
		} else {
			c.ResNS = nil
		}
	case 6:
		c.ColocatePods = !c.ColocatePods
	}
	return &c
}

// cutThrough returns base's available CPU set less one or two CPUs outside the
// reserved cpuset, isolated CPUs preferred: a change that cuts through
// existing exclusive grants instead of replacing the whole set.
func (g *genState) cutThrough(base *CfgSpec) string {
	r := g.r
	cur := g.m.Online()
	if base.Available != "" {
		cur = parseList(base.Available)
	}
	keep := map[int]bool{}
	if strings.HasPrefix(base.Reserved, "cpuset:") {
		for _, i := range parseList(strings.TrimPrefix(base.Reserved, "cpuset:")) {
			keep[i] = true
		}
	}
	iso := map[int]bool{}
	for _, i := range g.m.IsolatedCPUs() {
		iso[i] = true
	}
	var cand, candIso []int
	for _, i := range cur {
		if keep[i] || i == cur[0] {
			continue
		}
		cand = append(cand, i)
		if iso[i] {
			candIso = append(candIso, i)
		}
	}
	if len(cand) < 3 {
		return ""
	}
	if len(candIso) > 0 && r.Chance(0.6) {
		cand = candIso
	}
	drop := map[int]bool{}
	for k := r.Range(1, 2); k > 0; k-- {
		drop[cand[r.Intn(len(cand))]] = true
	}
	var out []int
	for _, i := range cur {
		if !drop[i] {
			out = append(out, i)
		}
	}
	return machine.ListString(out)
}

// parseList parses a CPU list as ListString writes it ("0-3,6,8-9").
func parseList(s string) []int {
	var out []int
	for _, f := range strings.Split(s, ",") {
		var a, b int
		if n, _ := fmt.Sscanf(f, "%d-%d", &a, &b); n == 2 {
			for i := a; i <= b; i++ {
				out = append(out, i)
			}
		} else if n, _ := fmt.Sscanf(f, "%d", &a); n == 1 {
			out = append(out, a)
		}
	}
	return out
}

func applyInvalid(c *CfgSpec, m *machine.Machine) {
	switch c.Invalid {
	case "unparsable-cpuset":
		c.Reserved = "cpuset:0-"
	case "reserved-outside-available":
		c.Reserved = fmt.Sprintf("cpuset:%d", len(m.CPUs)+5)
	case "no-reservation":
		c.Reserved = ""
	case "unsatisfiable":
		c.Reserved = fmt.Sprintf("%d", len(m.CPUs)+8)
	default:
		applyInvalidBalloons(c, m)
	}
}
