package main

import (
	"encoding/json"
	"fmt"
	libmem "github.com/containers/nri-plugins/pkg/resmgr/lib/memory"
	"regexp"
	"sort"
	"strings"
	"verifh/sim"
)

type c13state struct {
	before     string // zones + told views before the reconfigure
	beforeTold map[string]told
	allocated  map[string]bool // containers holding an allocation before the reconfigure
}

// sub returns a reporter that files violations of the invariants C01-C04 under
// another property (C11 / C13), prefixing the clause with its origin.
func (o *oracles) sub(prop, origin string) reporter {
	return func(clause, sig string, format string, a ...any) {
		o.w.res.Violate(prop, origin+"/"+clause, prop+" "+origin+" "+sig, o.w.step, format, a...)
	}
}

func (o *oracles) invariants(prop string, r *reply) {
	if o.w.plan.Policy == "topology-aware" {
		o.checkC01(o.sub(prop, "C01"))
		o.checkC03(o.sub(prop, "C03"))
	} else {
		o.checkC02(o.sub(prop, "C02"))
	}
	o.checkC04(o.sub(prop, "C04"), r)
}

// allocated reports whether the container holds an allocation.
func (o *oracles) allocated(id string) bool {
	w := o.w
	if w.plan.Policy == "topology-aware" {
		if sn := o.taSnap(); sn != nil {
			for _, g := range sn.Grants {
				if g.Container == id {
					return true
				}
			}
		}
		return false
	}
	if sn := o.balSnap(); sn != nil {
		_, n := balloonOf(sn, id)
		return n > 0
	}
	return false
}

func (o *oracles) optedOutOfAllocation(y *rCtr) bool {
	// balloons: cpu.preserve and the preserve rule keep a container out of
	// every balloon; topology-aware still grants (a preserve-type grant)
	return o.w.plan.Policy == "balloons" && (o.w.cpuPreserved(y) || o.balloonsPreserveRule(y))
}

// ---------------------------------------------------------------------------
// C11

func (o *oracles) noteCoexisting() {
	// remember the largest sets of containers that held allocations at once
	w := o.w
	cur := []string{}
	for _, y := range w.rt.active() {
		if o.allocated(y.spec.ID) {
			cur = append(cur, y.spec.ID+"/"+fmt.Sprint(y.cur.MilliCPU)+"/"+fmt.Sprint(y.cur.MemLimit))
		}
	}
	sort.Strings(cur)
	o.coexisted = append(o.coexisted, cur)
	if len(o.coexisted) > 64 {
		o.coexisted = o.coexisted[len(o.coexisted)-64:]
	}
}

func (o *oracles) checkC11(rep reporter, r *reply) {
	w := o.w
	res := w.res
	if r.err != nil {
		rep("synchronize-succeeds", "synchronize-failed", "Synchronize after %s failed: %v", r.kind, r.err)
		return
	}
	cch := w.cache()
	// (i) nothing belongs to containers the runtime does not list as created/running
	listed := map[string]*rCtr{}
	for _, y := range w.rt.live() {
		listed[y.spec.ID] = y
	}
	held := []string{}
	if w.plan.Policy == "topology-aware" {
		if sn := o.taSnap(); sn != nil {
			for _, g := range sn.Grants {
				held = append(held, g.Container)
			}
		}
	} else if sn := o.balSnap(); sn != nil {
		for _, b := range sn.Balloons {
			for _, cs := range b.Members {
				held = append(held, cs...)
			}
		}
	}
	if a := o.memAllocator(); a != nil {
		for id := range w.rt.ctrs {
			if _, ok := a.AssignedZone(id); ok {
				held = append(held, id)
			}
		}
	}
	for _, id := range held {
		res.Check("only-active-hold-resources")
		y, ok := listed[id]
		if !ok || (y.state != "created" && y.state != "running") {
			st := "gone"
			if ok {
				st = y.state
			}
			rep("only-active-hold-resources", "only-active-hold-resources "+st, "after %s + Synchronize container %s, which the runtime reports as %s, still holds resources", r.kind, id, st)
		}
	}
	for _, c := range cch.GetContainers() {
		res.Check("cache-purged")
		if _, ok := listed[c.GetID()]; !ok {
			rep("cache-purged", "cache-purged container", "after %s + Synchronize the cache still holds container %s which the runtime does not list", r.kind, c.GetID())
		}
	}
	for _, p := range cch.GetPods() {
		pod, ok := w.rt.pods[p.GetID()]
		if !ok || pod.state == "removed" {
			rep("cache-purged", "cache-purged pod", "after %s + Synchronize the cache still holds pod %s which the runtime does not list", r.kind, p.GetID())
		}
	}
	// (ii) every listed created/running container holds an allocation, judged
	// only when exactly this set (or a superset) held allocations at once before
	var need []string
	missing := []string{}
	for _, y := range w.rt.active() {
		if o.optedOutOfAllocation(y) || y.reqUnsure {
			continue
		}
		need = append(need, y.spec.ID+"/"+fmt.Sprint(y.cur.MilliCPU)+"/"+fmt.Sprint(y.cur.MemLimit))
		if !o.allocated(y.spec.ID) {
			missing = append(missing, y.spec.ID)
		}
	}
	sort.Strings(need)
	if len(missing) > 0 {
		feasible := false
		for _, set := range o.coexisted {
			have := map[string]bool{}
			for _, s := range set {
				have[s] = true
			}
			all := true
			for _, n := range need {
				if !have[n] {
					all = false
					break
				}
			}
			if all {
				feasible = true
				break
			}
		}
		res.Check("active-hold-allocation")
		if feasible && !w.cfgChangedSinceCoexist {
			rep("active-hold-allocation", "active-without-allocation", "after %s + Synchronize created/running container(s) %v hold no allocation although the same set of containers held allocations simultaneously before", r.kind, missing)
		} else {
			res.Probe("resync-left-container-unallocated-infeasible-or-unknown")
		}
	}
	// (iii) invariants on the post-sync state
	o.invariants("C11", r)
	// (iv) told view == cache view
	o.checkToldEqualsCache(o.sub("C11", "C05"), r.kind)
}

// ---------------------------------------------------------------------------
// C13

func (o *oracles) toldAndZones() (string, map[string]told) {
	w := o.w
	var b strings.Builder
	t := map[string]told{}
	for _, y := range w.rt.active() {
		t[y.spec.ID] = y.t
		fmt.Fprintf(&b, "%s %s\n", y.spec.ID, y.t)
	}
	// how much memory the policy's allocator holds for each live container
	// (the amount is part of the allocation; where it lies is in the zones)
	if a := o.memAllocator(); a != nil {
		sizes := map[string]int64{}
		a.ForeachRequest(nil, func(r *libmem.Request) bool { sizes[r.ID()] = r.Size(); return true })
		for _, y := range w.rt.active() {
			if sz, ok := sizes[y.spec.ID]; ok {
				fmt.Fprintf(&b, "%s holds %d bytes in the memory allocator\n", y.spec.ID, sz)
			}
		}
	}
	b.WriteString(o.zonesDump())
	return b.String(), t
}

// beforeRequest is called by the op loop right before a reconfigure op.
func (o *oracles) beforeRequest(op *Op) {
	if o.w.prop == "C13" && op.Kind == "reconfigure" {
		s, t := o.toldAndZones()
		o.c13 = &c13state{before: s, beforeTold: t, allocated: map[string]bool{}}
		for _, y := range o.w.rt.active() {
			o.c13.allocated[y.spec.ID] = o.allocated(y.spec.ID)
		}
	}
}

func sameCfg(a, b *CfgSpec) bool {
	ja, _ := json.Marshal(a)
	jb, _ := json.Marshal(b)
	return string(ja) == string(jb)
}

func (o *oracles) checkC13(rep reporter, r *reply) {
	w := o.w
	res := w.res
	if r.kind != "reconfigure" || o.c13 == nil {
		return
	}
	after, _ := o.toldAndZones()
	switch {
	case r.err != nil:
		// rejection: judged by the differential twin (see runTwin) and here
		// by the immediate observable state
		res.Check("rejected-leaves-state")
		if after != o.c13.before {
			ctx := ""
			if r.revertFailed {
				ctx = " revert-failed"
			}
			rep("rejected-leaves-state", "rejected-leaves-state "+w.plan.Policy+ctx, "a rejected configuration update (%s) changed assignments or advertised capacities:\n%s", r.op.Cfg.Invalid, firstDiffLines(o.c13.before, after))
		}
	case r.op.identical:
		res.Check("idempotent")
		res.Probe("identical-configuration-reapplied")
		if after != o.c13.before {
			ctx := ""
			if w.plan.Policy == "topology-aware" && sim.LogSeen(markReinstateFailed) {
				ctx = " after-failed-verbatim-reinstate"
			} else if w.plan.Policy == "topology-aware" && sameButMemory(o.c13.before, after) {
				// F24: reinstating releases the memory of every grant and asks
				// for it again; zones (and mems) can come out differently
				ctx = " memory-zones-only"
			} else if w.plan.Policy == "topology-aware" && w.failedReqInc {
				// F6: what an earlier failed request left pending is delivered
				// by the push that ends the (unchanged) reconfiguration
				ctx = " after-failed-request"
			}
			rep("idempotent", "idempotent "+w.plan.Policy+ctx, "re-applying an unchanged configuration changed resources:\n%s", firstDiffLines(o.c13.before, after))
		}
	default:
		// accepted change
		for _, y := range w.rt.active() {
			if o.optedOutOfAllocation(y) || y.reqUnsure {
				continue
			}
			res.Check("accepted-keeps-allocations")
			if !o.allocated(y.spec.ID) {
				ctx := ""
				if !o.c13.allocated[y.spec.ID] {
					// F8/F25: it had lost its allocation in an earlier failed
					// re-allocation; the update does not bring it back
					ctx = " already-unallocated-before-the-update"
				}
				if w.plan.Policy == "balloons" && ctx == "" {
					if sn := o.balSnap(); sn != nil && !o.readmitEvidence(sn) {
						ctx = " not-readmitted"
					}
				}
				for _, z := range w.rt.active() {
					if z.reqUnsure {
						// F6/F7: another container's failed UpdateContainer left its
						// new, unsatisfiable request in the cache; re-allocation of
						// everything then runs with that request
						ctx = " while-a-failed-update-request-is-cached"
					}
				}
				rep("accepted-keeps-allocations", "accepted-keeps-allocations "+w.plan.Policy+ctx, "after an accepted configuration update created/running container %s holds no allocation", y.spec.ID)
			}
		}
		for _, y := range w.rt.live() {
			if y.state == "stopped" && y.stopSeen {
				res.Check("stopped-not-readmitted")
				if what := o.holdsAnything(y.spec.ID); what != "" {
					rep("stopped-not-readmitted", "stopped-not-readmitted "+w.plan.Policy, "after an accepted configuration update the stopped container %s holds %s", y.spec.ID, what)
				}
			}
		}
		o.invariants("C13", r)
		o.checkToldEqualsCache(o.sub("C13", "C05"), "reconfigure")
	}
}

var memAttrs = regexp.MustCompile(`mems="[^"]*"|memory\([^)]*\)|memory set="[^"]*"`)

// sameButMemory: the two dumps differ only in memory nodes / memory accounting.
func sameButMemory(a, b string) bool {
	return a != b && memAttrs.ReplaceAllString(a, "") == memAttrs.ReplaceAllString(b, "")
}
