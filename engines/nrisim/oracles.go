package main

import (
	"fmt"
	"github.com/containers/nri-plugins/pkg/cpuallocator"
	"github.com/containers/nri-plugins/pkg/utils/cpuset"
	"path"
	"sort"
	"strconv"
	"strings"
	"verifh/verifrt"

	nri "github.com/containerd/nri/pkg/api"

	topologyaware "github.com/containers/nri-plugins/cmd/plugins/topology-aware/policy"
	"github.com/containers/nri-plugins/pkg/resmgr/cache"

	"verifh/sim"
)

// ---------------------------------------------------------------------------
// small cpuset helper independent of the code under test

type cset map[int]bool

func parseSet(s string) cset {
	out := cset{}
	s = strings.TrimSpace(s)
	if s == "" {
		return out
	}
	for _, part := range strings.Split(s, ",") {
		part = strings.TrimSpace(part)
		if part == "" {
			continue
		}
		if i := strings.Index(part, "-"); i > 0 {
			a, e1 := strconv.Atoi(part[:i])
			b, e2 := strconv.Atoi(part[i+1:])
			if e1 != nil || e2 != nil {
				continue
			}
			for x := a; x <= b; x++ {
				out[x] = true
			}
		} else if x, err := strconv.Atoi(part); err == nil {
			out[x] = true
		}
	}
	return out
}

func setOf(a []int) cset {
	out := cset{}
	for _, x := range a {
		out[x] = true
	}
	return out
}

func (a cset) list() []int {
	l := make([]int, 0, len(a))
	for x := range a {
		l = append(l, x)
	}
	sort.Ints(l)
	return l
}

func (a cset) String() string {
	l := a.list()
	if len(l) == 0 {
		return ""
	}
	var parts []string
	s, p := l[0], l[0]
	flush := func() {
		if s == p {
			parts = append(parts, strconv.Itoa(s))
		} else {
			parts = append(parts, fmt.Sprintf("%d-%d", s, p))
		}
	}
	for _, x := range l[1:] {
		if x == p+1 {
			p = x
			continue
		}
		flush()
		s, p = x, x
	}
	flush()
	return strings.Join(parts, ",")
}

func (a cset) inter(b cset) cset {
	out := cset{}
	for x := range a {
		if b[x] {
			out[x] = true
		}
	}
	return out
}

func (a cset) minus(b cset) cset {
	out := cset{}
	for x := range a {
		if !b[x] {
			out[x] = true
		}
	}
	return out
}

func (a cset) union(b cset) cset {
	out := cset{}
	for x := range a {
		out[x] = true
	}
	for x := range b {
		out[x] = true
	}
	return out
}

func (a cset) subsetOf(b cset) bool { return len(a.minus(b)) == 0 }
func (a cset) equal(b cset) bool    { return a.subsetOf(b) && b.subsetOf(a) }

// ---------------------------------------------------------------------------
// reference resolution of effective annotations: container-specific beats
// pod-wide beats bare key (written from the documentation)

func effAnn(pod *PodSpec, ctr, key string) (string, bool) {
	if pod == nil || pod.Annotations == nil {
		return "", false
	}
	if v, ok := pod.Annotations[key+"/container."+ctr]; ok {
		return v, true
	}
	if v, ok := pod.Annotations[key+"/pod"]; ok {
		return v, true
	}
	v, ok := pod.Annotations[key]
	return v, ok
}

func annTrue(pod *PodSpec, ctr, key string) (val, present bool) {
	v, ok := effAnn(pod, ctr, key)
	if !ok {
		return false, false
	}
	b, err := strconv.ParseBool(v)
	if err != nil {
		return false, false
	}
	return b, true
}

// reservedClass: kube-system, a reserved namespace glob, or the reserved-CPU annotation
func (w *world) reservedClass(c *rCtr) bool {
	ns := c.pod.spec.Namespace
	// the annotation opts individual containers in or out, whatever the namespace
	if v, ok := annTrue(c.pod.spec, c.spec.Name, "prefer-reserved-cpus."+rns); ok {
		return v
	}
	if ns == "kube-system" {
		return true
	}
	for _, g := range w.cfg.ResNS {
		if m, _ := path.Match(g, ns); m {
			return true
		}
	}
	return false
}

func (w *world) cpuPreserved(c *rCtr) bool {
	v, _ := annTrue(c.pod.spec, c.spec.Name, "cpu.preserve."+rns)
	return v
}

func (w *world) memPreserved(c *rCtr) bool {
	v, _ := annTrue(c.pod.spec, c.spec.Name, "memory.preserve."+rns)
	return v
}

// ---------------------------------------------------------------------------

type reporter func(clause, sig string, format string, a ...any)

type oracles struct {
	victim    *rCtr // container the clause being evaluated is about (nil: pool-level clause)
	canon     int
	coexisted [][]string
	lastKind  string
	lastErr   bool // the last request failed
	// C08 direct exerciser
	xAlloc   *allocMonitor
	xAlloc2  cpuallocator.CPUAllocator
	xRand    *verifrt.Rand
	xOnline  []int
	xSet     cpuset.CPUSet
	errSince map[string]bool
	w        *world
	pristine string // C09: zones right after applying the configuration
	prevZone map[string]uint64
	c13      *c13state
}

func newOracles(w *world) *oracles { return &oracles{w: w, prevZone: map[string]uint64{}} }

func (o *oracles) report(prop string) reporter {
	return func(clause, sig string, format string, a ...any) {
		o.w.res.Violate(prop, clause, prop+" "+sig, o.w.step, format, a...)
	}
}

func (o *oracles) taSnap() *topologyaware.VerifSnap {
	if o.w.plan.Policy != "topology-aware" {
		return nil
	}
	return topologyaware.VerifSnapshot(o.w.backend())
}

func (o *oracles) available() cset {
	if o.w.cfg.Available != "" {
		return parseSet(o.w.cfg.Available).inter(setOf(o.w.plan.Machine.Online()))
	}
	return setOf(o.w.plan.Machine.Online())
}

func (o *oracles) afterBoot() {
	w := o.w
	switch w.prop {
	case "C16":
		o.checkC16(o.report("C16"))
	case "C09":
		o.pristine = o.zonesDump()
	}
	o.wrapAllocator()
}

func (o *oracles) afterRequest(rep *reply) {
	w := o.w
	o.lastKind = rep.kind
	o.lastErr = rep.err != nil
	if rep.kind == "restart" {
		o.wrapAllocator() // a new incarnation has a new allocator
	}
	pol := w.plan.Policy
	switch w.prop {
	case "C01":
		o.checkC01(o.report("C01"))
	case "C02":
		o.checkC02(o.report("C02"))
	case "C03":
		o.checkC03(o.report("C03"))
	case "C04":
		o.checkC04(o.report("C04"), rep)
	case "C05":
		o.checkC05(o.report("C05"), rep)
	case "C08":
		o.exerciseAllocator(3)
	case "C09":
		o.checkC09Stopped(o.report("C09"))
	case "C11":
		if rep.kind == "restart" || rep.kind == "sync" {
			o.checkC11(o.report("C11"), rep)
		}
	case "C12":
		o.checkC12(o.report("C12"), rep)
	case "C13":
		o.checkC13(o.report("C13"), rep)
	case "C14":
		o.checkC14(o.report("C14"), rep)
	case "C16":
		if rep.kind == "reconfigure" && rep.err == nil {
			o.checkC16(o.report("C16"))
		}
	}
	_ = pol
	if w.prop == "C11" {
		o.noteCoexisting()
	}
	o.rememberZones()
}

func (o *oracles) atEnd() {
	switch o.w.prop {
	case "C09":
		o.checkC09End(o.report("C09"))
	}
}

func (o *oracles) fingerprint() uint64 {
	w := o.w
	s := w.rt.dump()
	if w.plan.Policy == "topology-aware" {
		if sn := o.taSnap(); sn != nil {
			for _, g := range sn.Grants {
				s += fmt.Sprintf("G %s@%s x=%s p=%d m=%s;", g.Container, g.Pool, g.Exclusive, g.Portion, g.MemZone)
			}
		}
	} else {
		s += o.balloonsDump()
	}
	return sim.Hash64(s)
}

// ---------------------------------------------------------------------------
// C01

func (o *oracles) checkC01(rep0 reporter) {
	w := o.w
	// F16: after a rejected configuration update topology-aware's grants and
	// the cached cpusets can get out of step; classified separately
	rep := o.withCause(rep0)
	sn := o.taSnap()
	if sn == nil {
		return
	}
	res := w.res
	avail := o.available()
	reserved := parseSet(sn.Reserved)
	grants := map[string]*topologyaware.VerifGrant{}
	for i := range sn.Grants {
		grants[sn.Grants[i].Container] = &sn.Grants[i]
	}
	// an active container without a grant: its re-allocation failed (the
	// runtime keeps the old pinning)
	for _, y := range w.rt.active() {
		if _, ok := grants[y.spec.ID]; !ok && y.lostGrant == "" && !w.cpuPreserved(y) &&
			(o.lastKind == "sync" || o.lastKind == "restart" || o.lastKind == "reconfigure") {
			y.lostGrant = "failed-reallocation-on-" + o.lastKind
		}
	}
	// (a) exclusive sets pairwise disjoint
	for i := range sn.Grants {
		xi := parseSet(sn.Grants[i].Exclusive)
		if len(xi) == 0 {
			continue
		}
		res.Probe("exclusive-grant-live")
		for j := i + 1; j < len(sn.Grants); j++ {
			res.Check("exclusive-disjoint")
			if c := xi.inter(parseSet(sn.Grants[j].Exclusive)); len(c) > 0 {
				rep("exclusive-disjoint", "exclusive-disjoint", "containers %s and %s both hold CPUs %s exclusively", sn.Grants[i].Container, sn.Grants[j].Container, c)
			}
		}
		// (b) no other container is allowed on them. With pinCPU off the
		// policy tells nobody a CPU set and enforces nothing: the stale sets
		// from before the reconfiguration are not judged.
		for _, y := range w.rt.active() {
			if y.spec.ID == sn.Grants[i].Container || !y.t.CpusSet || !w.cfg.PinCPU {
				continue
			}
			o.victim = y
			res.Check("exclusive-not-shared")
			if c := xi.inter(parseSet(y.t.Cpus)); len(c) > 0 {
				how := "other-with-grant"
				gy, ok := grants[y.spec.ID]
				if !ok && y.lostGrant == "" && (o.lastKind == "sync" || o.lastKind == "restart" || o.lastKind == "reconfigure") {
					// re-allocation of an already running container failed
					// during a resynchronisation/reconfiguration
					y.lostGrant = "failed-re" + "allocation-on-" + o.lastKind
				}
				switch {
				case !ok && y.lostGrant != "":
					// the victim lost its grant in a failed UpdateContainer and the
					// runtime keeps its old pinning
					how = "victim-lost-grant-in-" + y.lostGrant
				case !ok:
					how = "other-without-grant"
				case len(parseSet(gy.Exclusive)) == 0 && o.poolEmptiedByAncestorSlice(sn, gy.Pool):
					// the victim's pool had its whole shared set sliced away by
					// exclusive grants taken at an ancestor pool: it was told an
					// empty set, which the runtime ignores
					how = "victim-pool-emptied-by-ancestor-slice"
				}
				rep("exclusive-not-shared", "exclusive-not-shared "+how, "CPUs %s granted exclusively to %s are in the cpuset %q the runtime was told for %s (%s)", c, sn.Grants[i].Container, y.t.Cpus, y.spec.ID, how)
			}
		}
		o.victim = nil
		// (c) not in any pool's shared set
		for _, p := range sn.Pools {
			res.Check("exclusive-not-in-shared-set")
			if c := xi.inter(parseSet(p.FreeSharable)); len(c) > 0 {
				rep("exclusive-not-in-shared-set", "exclusive-not-in-shared-set", "CPUs %s granted exclusively to %s are still in the shared set %s of pool %s", c, sn.Grants[i].Container, p.FreeSharable, p.Name)
			}
		}
	}
	// (d),(e)
	for _, y := range w.rt.active() {
		if !y.t.CpusSet || !w.cfg.PinCPU {
			continue
		}
		o.victim = y
		t := parseSet(y.t.Cpus)
		res.Check("within-available")
		lost := ""
		if _, ok := grants[y.spec.ID]; !ok && y.lostGrant != "" {
			lost = " victim-lost-grant-in-" + y.lostGrant
		}
		if c := t.minus(avail); len(c) > 0 {
			rep("within-available", "within-available"+lost, "%s is pinned to %q, CPUs %s are outside the available set %s", y.spec.ID, y.t.Cpus, c, avail)
		}
		if c := t.inter(reserved); len(c) > 0 {
			res.Check("reserved-only-reserved-class")
			if !w.reservedClass(y) {
				how := "with-grant"
				if _, ok := grants[y.spec.ID]; !ok {
					how = "without-grant"
					if y.lostGrant != "" {
						how = "victim-lost-grant-in-" + y.lostGrant
					}
				}
				if y.resAtAlloc {
					// it was reserved-class when allocated; a later
					// reconfiguration changed the reserved namespaces
					how = "class-changed-by-reconfigure"
				}
				rep("reserved-only-reserved-class", "reserved-only-reserved-class "+how, "%s (namespace %s, not reserved-class) is pinned to %q which includes reserved CPUs %s", y.spec.ID, y.pod.spec.Namespace, y.t.Cpus, c)
			} else if !t.subsetOf(reserved) {
				rep("reserved-only-reserved-class", "reserved-mixed"+lost, "%s is pinned to %q which mixes reserved CPUs %s with others", y.spec.ID, y.t.Cpus, c)
			}
		}
	}
}

// ---------------------------------------------------------------------------
// C05

func fieldsOf(r *nri.LinuxResources) map[string]string {
	out := map[string]string{}
	if r == nil {
		return out
	}
	if c := r.Cpu; c != nil {
		if c.Cpus != "" {
			out["cpus"] = c.Cpus
		}
		if c.Mems != "" {
			out["mems"] = c.Mems
		}
		if c.Shares != nil {
			out["shares"] = fmt.Sprint(c.Shares.Value)
		}
		if c.Quota != nil {
			out["quota"] = fmt.Sprint(c.Quota.Value)
		}
		if c.Period != nil {
			out["period"] = fmt.Sprint(c.Period.Value)
		}
	}
	if m := r.Memory; m != nil {
		if m.Limit != nil {
			out["memlimit"] = fmt.Sprint(m.Limit.Value)
		}
		if m.Swap != nil {
			out["swap"] = fmt.Sprint(m.Swap.Value)
		}
	}
	return out
}

func cacheFields(c cache.Container) map[string]string {
	return map[string]string{
		"cpus": c.GetCpusetCpus(), "mems": c.GetCpusetMems(), "shares": fmt.Sprint(c.GetCPUShares()),
		"quota": fmt.Sprint(c.GetCPUQuota()), "period": fmt.Sprint(c.GetCPUPeriod()),
		"memlimit": fmt.Sprint(c.GetMemoryLimit()), "swap": fmt.Sprint(c.GetMemorySwap()),
	}
}

func toldFields(t told) map[string]string {
	return map[string]string{
		"cpus": t.Cpus, "mems": t.Mems, "shares": fmt.Sprint(t.Shares), "quota": fmt.Sprint(t.Quota),
		"period": fmt.Sprint(t.Period), "memlimit": fmt.Sprint(t.MemLimit), "swap": fmt.Sprint(t.Swap),
	}
}

var fieldOrder = []string{"cpus", "mems", "shares", "quota", "period", "memlimit", "swap"}

func (o *oracles) checkToldEqualsCache(rep reporter, ctx string) {
	ctx0 := ctx
	_ = ctx0
	w := o.w
	cch := w.cache()
	for _, y := range w.rt.active() {
		c, ok := cch.LookupContainer(y.spec.ID)
		if !ok {
			continue
		}
		if y.t.staleUntilNextUpdate {
			continue // an injected UpdateContainers failure (fault batches only)
		}
		w.res.Check("told-equals-cache")
		cf, tf := cacheFields(c), toldFields(y.t)
		for _, f := range fieldOrder {
			if (f == "cpus" || f == "mems") && cf[f] == "" && tf[f] != "" {
				// the cache records "no pinning", which NRI cannot express (an
				// empty set means "unchanged"): weaker reading, not judged here
				// (C03 judges empty CPU sets of pinned containers)
				w.res.Probe("cache-unpinned-runtime-still-pinned")
				continue
			}
			if cf[f] != tf[f] {
				sig := "told-equals-cache " + ctx + " " + f
				if !o.allocated(y.spec.ID) && !o.optedOutOfAllocation(y) {
					// the container lost its allocation (F8/F25): nothing
					// re-applies or re-sends its resources
					sig = "told-equals-cache container-without-allocation"
				} else if y.lostPush {
					// F27: the pending marks were cleared before the refused
					// push; nothing ever re-sends the fields it carried
					sig = "told-equals-cache after-refused-push"
				} else if y.reqUnsure {
					// an earlier UpdateContainer for it failed half-way (F6/F8):
					// plugin and runtime disagree about it since then
					sig = "told-equals-cache after-failed-request"
				} else if ctx == "rejected-reconfigure-whose-revert-failed" {
					sig = "told-equals-cache after-rejected-reconfigure-whose-revert-failed"
				} else if strings.HasPrefix(ctx, "failed-") {
					sig = "told-equals-cache after-failed-request"
				} else if (ctx == "restart" || y.restarts > 0) && (f == "cpus" || f == "shares") && o.cpuOptedOut(y) {
					// F7: persisted values of a container nothing pins any more;
					// they stay until something else rewrites the field
					sig = "told-equals-cache restart stale-persisted-resources-with-cpu-pinning-off"
				} else if (ctx == "restart" || y.restarts > 0) && f == "mems" && (o.memOptedOut(y) || o.balloonsPreserveRule(y)) {
					sig = "told-equals-cache restart stale-persisted-resources-with-memory-pinning-off"
				}
				rep("told-equals-cache", sig, "after %s: container %s %s: runtime has been told %q but the cache records %q (told view: %s)", ctx, y.spec.ID, f, tf[f], cf[f], y.t)
				break
			}
		}
	}
}

func (o *oracles) checkC05(rep reporter, r *reply) {
	w := o.w
	res := w.res
	cch := w.cache()
	// no change stays pending after the reply
	res.Check("nothing-pending")
	if p := cch.GetPendingContainers(); len(p) > 0 {
		ids := []string{}
		for _, c := range p {
			ids = append(ids, c.GetID())
		}
		sort.Strings(ids)
		how := r.kind
		if r.err != nil {
			how = "failed-" + r.kind
		}
		if r.err != nil {
			how = "failed-request"
			if r.kind == "reconfigure" {
				// a rejected update is reverted and the result pushed: nothing
				// may stay pending
				how = "rejected-reconfigure"
				if r.revertFailed {
					how = "rejected-reconfigure-whose-revert-failed"
				}
			}
		}
		rep("nothing-pending", "nothing-pending after-"+how, "after %s %d container(s) still have undelivered changes: %v", how, len(p), ids)
	}
	// at most one update per container per reply; none for stopped/removed containers
	check := func(us []*nri.ContainerUpdate, what string) {
		seen := map[string]bool{}
		for _, u := range us {
			res.Check("update-wellformed")
			if seen[u.ContainerId] {
				rep("update-wellformed", "update-duplicate "+what, "%s of %s carries more than one update for container %s", what, r.kind, u.ContainerId)
			}
			seen[u.ContainerId] = true
			y, ok := w.rt.ctrs[u.ContainerId]
			if !ok || y.state == "stopped" || y.state == "removed" || y.state == "failed" {
				st := "unknown"
				if ok {
					st = y.state
				}
				rep("update-wellformed", "update-for-dead-container "+what+" "+st, "%s of %s addresses container %s which the runtime has %s", what, r.kind, u.ContainerId, st)
			}
		}
	}
	check(r.updates, "reply")
	for _, p := range r.pushed {
		check(p, "UpdateContainers push")
	}
	if len(r.updates) > 1 || len(r.pushed) > 0 {
		res.Probe("request-updated-other-containers")
	}
	// the adjustment describes only the container being created
	if r.adjust != nil && r.target != "" && r.err == nil {
		if c, ok := cch.LookupContainer(r.target); ok && r.adjust.Linux != nil {
			res.Check("adjustment-own-container")
			cf := cacheFields(c)
			af := fieldsOf(r.adjust.Linux.Resources)
			for _, f := range fieldOrder {
				if v, ok := af[f]; ok && v != cf[f] {
					rep("adjustment-own-container", "adjustment-own-container "+f, "CreateContainer(%s): the adjustment sets %s=%q but the cache records %q for that container", r.target, f, v, cf[f])
					break
				}
			}
		}
	}
	how := r.kind
	if r.err != nil {
		how = "failed-" + r.kind
		if r.kind == "reconfigure" {
			how = "rejected-reconfigure"
			if r.revertFailed {
				how = "rejected-reconfigure-whose-revert-failed"
			}
		}
	}
	o.checkToldEqualsCache(rep, how)
}

// ---------------------------------------------------------------------------
// C12

func (o *oracles) cpuOptedOut(y *rCtr) bool {
	w := o.w
	if !w.cfg.PinCPU {
		if w.cfg.Policy == "balloons" && w.cfg.Balloons != nil && w.cfg.Balloons.PinCPUNil {
			return w.cpuPreserved(y) || o.balloonsPreserveRule(y)
		}
		return true
	}
	return w.cpuPreserved(y) || o.balloonsPreserveRule(y)
}

func (o *oracles) balloonsPreserveRule(y *rCtr) bool {
	w := o.w
	if w.cfg.Policy != "balloons" || w.cfg.Balloons == nil {
		return false
	}
	b := w.cfg.Balloons
	if b.PreserveLabel != "" && y.pod.spec.Labels["app"] == b.PreserveLabel {
		return true
	}
	return b.PreserveName != "" && y.spec.Name == b.PreserveName
}

func (o *oracles) memOptedOut(y *rCtr) bool {
	w := o.w
	if w.memPreserved(y) {
		return true
	}
	if !w.cfg.PinMemory {
		if w.cfg.Policy == "balloons" && w.cfg.Balloons != nil && w.cfg.Balloons.PinMemoryNil {
			return o.balloonTypePinMemoryOff(y)
		}
		// balloons: a balloon type may switch memory pinning back on
		if w.cfg.Policy == "balloons" && o.balloonTypePinMemoryOn(y) {
			return false
		}
		return true
	}
	return o.balloonTypePinMemoryOff(y)
}

// c12Cause labels a told value of an opted-out container with the one earlier
// defect, if any, that explains it (each is a recorded finding of C05/C13).
func (o *oracles) c12Cause(y *rCtr, toldNow string) string {
	w := o.w
	switch {
	case w.revertFailedInc:
		return " after-rejected-reconfigure-whose-revert-failed"
	case w.failedReqInc:
		return " after-failed-request"
	case w.rejectedReconf:
		return " after-rejected-reconfigure"
	case y.restarts > 0 && y.toldHist[toldNow]:
		return " stale-persisted-after-restart"
	}
	return ""
}

func (o *oracles) checkC12(rep reporter, r *reply) {
	w := o.w
	one := func(id string, res *nri.LinuxResources, what string) {
		y, ok := w.rt.ctrs[id]
		if !ok || res == nil || res.Cpu == nil {
			return
		}
		prev := r.prev[id]
		if res.Cpu.Cpus != "" {
			w.res.Check("cpu-optout-honoured")
			// weaker reading: being told again exactly the set the runtime
			// already holds for the container changes nothing and is not judged
			if o.cpuOptedOut(y) && !(prev.CpusSet && prev.Cpus == res.Cpu.Cpus) {
				why := "pinCPU-off"
				if w.cpuPreserved(y) {
					why = "cpu.preserve"
				} else if o.balloonsPreserveRule(y) {
					why = "preserve-rule"
				}
				why += o.c12Cause(y, "cpus="+res.Cpu.Cpus)
				rep("cpu-optout-honoured", "cpu-optout-honoured "+why+" via-"+r.kind, "%s of %s tells container %s (opted out of CPU pinning: %s) the cpuset %q", what, r.kind, id, why, res.Cpu.Cpus)
			}
		}
		if res.Cpu.Mems != "" {
			w.res.Check("mem-optout-honoured")
			if o.memOptedOut(y) && res.Cpu.Mems != y.init.Mems && !(prev.MemsSet && prev.Mems == res.Cpu.Mems) {
				why := "pinMemory-off"
				if w.memPreserved(y) {
					why = "memory.preserve"
				}
				why += o.c12Cause(y, "mems="+res.Cpu.Mems)
				rep("mem-optout-honoured", "mem-optout-honoured "+why+" via-"+r.kind, "%s of %s tells container %s (opted out of memory pinning: %s) the memory nodes %q, it had %q", what, r.kind, id, why, res.Cpu.Mems, y.init.Mems)
			}
		}
	}
	if r.adjust != nil && r.adjust.Linux != nil {
		one(r.target, r.adjust.Linux.Resources, "adjustment")
	}
	for _, u := range r.updates {
		if u.Linux != nil {
			one(u.ContainerId, u.Linux.Resources, "update")
		}
	}
	for _, p := range r.pushed {
		for _, u := range p {
			if u.Linux != nil {
				one(u.ContainerId, u.Linux.Resources, "pushed update")
			}
		}
	}
	for _, y := range w.rt.active() {
		if o.cpuOptedOut(y) || o.memOptedOut(y) {
			w.res.Probe("opted-out-container-live")
			break
		}
	}
}

// poolEmptiedByAncestorSlice: the pool's free shared set is empty and every
// CPU missing from it is held exclusively by a grant located at a strict
// ancestor pool (or by this pool's own subtree).
func (o *oracles) poolEmptiedByAncestorSlice(sn *topologyaware.VerifSnap, pool string) bool {
	var p *topologyaware.VerifPool
	parent := map[string]string{}
	for i := range sn.Pools {
		parent[sn.Pools[i].Name] = sn.Pools[i].Parent
		if sn.Pools[i].Name == pool {
			p = &sn.Pools[i]
		}
	}
	if p == nil || len(parseSet(p.FreeSharable)) != 0 {
		return false
	}
	return len(o.slicedByAncestors(sn, p, parent)) > 0
}

// slicedByAncestors returns the CPUs of the pool's total sharable supply that
// are exclusively held by grants located at strict ancestors of the pool.
func (o *oracles) slicedByAncestors(sn *topologyaware.VerifSnap, p *topologyaware.VerifPool, parent map[string]string) cset {
	anc := map[string]bool{}
	for a := parent[p.Name]; a != ""; a = parent[a] {
		anc[a] = true
	}
	out := cset{}
	total := parseSet(p.Sharable)
	for _, g := range sn.Grants {
		if anc[g.Pool] {
			out = out.union(parseSet(g.Exclusive).inter(total))
		}
	}
	return out
}

// checkC14: after a refused request the plugin must still serve a canonical
// valid sequence (panics and fatal exits are caught by world.call).
func (o *oracles) checkC14(rep reporter, r *reply) {
	w := o.w
	if r.err == nil || w.dead {
		return
	}
	w.res.Probe("request-refused")
	o.canon++
	id := fmt.Sprintf("canon%d", o.canon)
	pod := &PodSpec{ID: "pod-" + id, Name: "p-" + id, Namespace: "default", QoS: "BestEffort"}
	ctr := &CtrSpec{ID: "ctr-" + id, Pod: pod.ID, Name: "c0"}
	seq := []Op{{Kind: "run-pod", Pod: pod}, {Kind: "create", Ctr: ctr}, {Kind: "start", ID: ctr.ID}, {Kind: "stop", ID: ctr.ID}, {Kind: "remove", ID: ctr.ID}, {Kind: "stop-pod", ID: pod.ID}, {Kind: "remove-pod", ID: pod.ID}}
	for i := range seq {
		seq[i].N = 100000 + o.canon*10 + i
		w.vw.SetRequest(fmt.Sprintf("canon%d.%d", o.canon, i))
		rr := w.doOp(&seq[i])
		w.res.Check("serves-after-refusal")
		if w.dead {
			return
		}
		if rr.err != nil && seq[i].Kind == "create" && strings.Contains(rr.err.Error(), "failed to allocate resources") {
			// the machine is simply full: a legitimate refusal of the probe
			w.res.Probe("canonical-create-refused-for-capacity")
			return
		}
		if rr.skipped || rr.err != nil {
			cause := ""
			if rr.err != nil && strings.Contains(rr.err.Error(), "resize/deflate: failed to choose a cpuset") {
				// F26: the balloons CPU tree allocator cannot pick CPUs to
				// release; every StopContainer in that balloon fails from then on
				cause = " balloon-deflate-failed"
			}
			rep("serves-after-refusal", "serves-after-refusal "+seq[i].Kind+" after-refused-"+r.kind+cause, "after the refused %s (%v) the canonical %s of a new BestEffort container failed: skipped=%v err=%v", r.kind, r.err, seq[i].Kind, rr.skipped, rr.err)
			return
		}
	}
}

// withCause appends exactly one cause label to the signature of a violation
// that does not carry one yet, by priority: the victim lost its grant (F8/F25);
// the victim was allocated under a configuration that has since been replaced
// (topology-aware reinstates grants verbatim, F11/F24); a configuration update
// was rejected and reverted in this incarnation (F16); an accepted
// reconfiguration happened in this incarnation.
func explainedByVerbatimReinstate(clause string) bool {
	for _, c := range []string{"reserved-only-reserved-class", "within-available", "eligibility", "isolated-all-or-none", "shares", "nonempty-cpuset"} {
		if strings.HasSuffix(clause, c) {
			return true
		}
	}
	return false
}

func (o *oracles) cacheCpusetEmpty(y *rCtr) bool {
	c, ok := o.w.cache().LookupContainer(y.spec.ID)
	return ok && c.GetCpusetCpus() == "" && o.w.cfg.PinCPU && !o.w.cpuPreserved(y)
}

func (o *oracles) withCause(rep0 reporter) reporter {
	return func(clause, sig string, format string, a ...any) {
		w := o.w
		has := false
		for _, m := range []string{"victim-", "class-changed", "sliced-by-ancestor", "pool-without", "pool-shared-cpus-all", "after-rejected", "allocated-under", "after-reconfiguration", "stale-pinning-of-grant"} {
			if strings.Contains(sig, m) {
				has = true
			}
		}
		if !has {
			y := o.victim
			switch {
			case y != nil && y.lostGrant != "":
				sig += " victim-lost-grant-in-" + y.lostGrant
			case y != nil && y.cfgAtAlloc != nil && y.cfgAtAlloc != w.cfg && explainedByVerbatimReinstate(clause):
				// F11/F24 explain a container keeping what the earlier
				// configuration gave it; they do not explain two containers'
				// CPU sets overlapping
				sig += " allocated-under-previous-configuration"
			case y != nil && o.cacheCpusetEmpty(y) && y.t.Cpus != "":
				// F10: the grant's allowed set is empty, the plugin records an
				// empty cpuset, which NRI cannot express: the runtime keeps the
				// container's previous pinning
				sig += " stale-pinning-of-grant-with-empty-cpuset"
			case w.rejectedReconf:
				sig += " after-rejected-reconfigure"
			case w.reconfiguredInc:
				sig += " after-reconfiguration"
			}
		}
		rep0(clause, sig, format, a...)
	}
}
