package main

import (
	"fmt"
	"os"
	"path/filepath"
	"regexp"
	"sort"
	"strings"
	"verifh/verifrt"

	nri "github.com/containerd/nri/pkg/api"

	balloons "github.com/containers/nri-plugins/cmd/plugins/balloons/policy"
	topologyaware "github.com/containers/nri-plugins/cmd/plugins/topology-aware/policy"
	"github.com/containers/nri-plugins/pkg/cpuallocator"
	"github.com/containers/nri-plugins/pkg/resmgr"
	libmem "github.com/containers/nri-plugins/pkg/resmgr/lib/memory"
	policyapi "github.com/containers/nri-plugins/pkg/resmgr/policy"
	"github.com/containers/nri-plugins/pkg/sysfs"
	"github.com/containers/nri-plugins/pkg/utils/cpuset"
)

func policyPolicy(w *world) policyapi.Policy { return resmgr.VerifPolicy(w.rm) }

func (o *oracles) memAllocator() *libmem.Allocator {
	if o.w.plan.Policy == "balloons" {
		return balloons.VerifMemAllocator(o.w.backend())
	}
	return topologyaware.VerifMemAllocator(o.w.backend())
}

func maskString(m libmem.NodeMask) string { return m.MemsetString() }

// memPinned: memory pinning applies to the container
func (o *oracles) memPinned(y *rCtr) bool { return !o.memOptedOut(y) }

// ---------------------------------------------------------------------------
// C04

func (o *oracles) zonesNow() map[string]uint64 {
	a := o.memAllocator()
	out := map[string]uint64{}
	if a == nil {
		return out
	}
	for id := range o.w.rt.ctrs {
		if z, ok := a.AssignedZone(id); ok {
			out[id] = uint64(z)
		}
	}
	return out
}

func (o *oracles) rememberZones() {
	if o.w.prop == "C04" || o.w.prop == "C11" || o.w.prop == "C13" {
		o.prevZone = o.zonesNow()
	}
}

func (o *oracles) checkC04(rep reporter, r *reply) {
	w := o.w
	a := o.memAllocator()
	if a == nil {
		return
	}
	res := w.res
	m := w.plan.Machine
	capOf := func(z libmem.NodeMask) int64 {
		var c int64
		for _, n := range m.Nodes {
			if z.Contains(n.ID) {
				c += int64(n.MemKB) * 1024
			}
		}
		return c
	}
	var hasMem libmem.NodeMask
	for _, n := range m.Nodes {
		if n.MemKB > 0 {
			hasMem |= libmem.NewNodeMask(n.ID)
		}
	}
	now := o.zonesNow()
	// told mems == assigned zone; non-empty; existing nodes with memory
	for _, y := range w.rt.active() {
		if !o.memPinned(y) {
			continue
		}
		z, ok := now[y.spec.ID]
		if y.t.MemsSet {
			res.Check("mems-wellformed")
			t := parseSet(y.t.Mems)
			bad := cset{}
			for id := range t {
				if !hasMem.Contains(id) {
					bad[id] = true
				}
			}
			if len(t) == 0 || len(bad) > 0 {
				what := "mems-wellformed"
				allMemless := len(bad) > 0
				for id := range bad {
					found := false
					for _, n := range m.Nodes {
						if n.ID == id && n.MemKB == 0 && len(n.CPUs) > 0 {
							found = true
						}
					}
					if !found {
						allMemless = false
					}
				}
				if allMemless {
					what += " includes-memoryless-cpu-node"
				}
				rep("mems-wellformed", what, "container %s has been told memory nodes %q: empty, or nodes %s do not exist / have no memory", y.spec.ID, y.t.Mems, bad)
			}
		}
		if !ok || r.err != nil || y.t.staleUntilNextUpdate {
			continue
		}
		res.Check("mems-follow-allocator")
		want := maskString(libmem.NodeMask(z))
		if !y.t.MemsSet || !parseSet(y.t.Mems).equal(parseSet(want)) {
			cause := ""
			if y.lostGrant != "" {
				cause = " victim-lost-grant"
			} else if w.rejectedReconf {
				cause = " after-rejected-reconfigure"
			}
			rep("mems-follow-allocator", "mems-follow-allocator"+cause, "after %s: the allocator assigns zone %q to %s but the runtime has been told memory nodes %q", r.kind, want, y.spec.ID, y.t.Mems)
		}
	}
	// capacity of assigned zones and their unions (after successful requests)
	if r.err == nil {
		type rq struct {
			zone libmem.NodeMask
			size int64
		}
		var reqs []rq
		zset := map[libmem.NodeMask]bool{}
		a.ForeachRequest(nil, func(q *libmem.Request) bool {
			reqs = append(reqs, rq{q.Zone(), q.Size()})
			zset[q.Zone()] = true
			return true
		})
		zs := make([]libmem.NodeMask, 0, len(zset))
		for z := range zset {
			zs = append(zs, z)
		}
		sort.Slice(zs, func(i, j int) bool { return zs[i] < zs[j] })
		if len(zs) > 10 {
			zs = zs[:10]
		}
		confined := func(u libmem.NodeMask) int64 {
			var s int64
			for _, q := range reqs {
				if q.zone&u == q.zone {
					s += q.size
				}
			}
			return s
		}
		broken := false
		for _, z := range zs {
			res.Check("zone-capacity")
			if used, c := confined(z), capOf(z); used > c {
				rep("zone-capacity", "zone-capacity zone", "after %s: allocations confined to assigned zone %s total %d > capacity %d", r.kind, z, used, c)
				broken = true
				break
			}
		}
		seen := map[libmem.NodeMask]bool{}
		for mk := 1; !broken && mk < 1<<uint(len(zs)); mk++ {
			var u libmem.NodeMask
			n := 0
			for i, z := range zs {
				if mk&(1<<uint(i)) != 0 {
					u |= z
					n++
				}
			}
			if n < 2 || seen[u] || zset[u] {
				continue
			}
			seen[u] = true
			res.Check("zone-capacity")
			if used, c := confined(u), capOf(u); used > c {
				rep("zone-capacity", "zone-capacity union-of-zones", "after %s: every assigned zone fits, but allocations confined to the union %s total %d > capacity %d", r.kind, u, used, c)
				break
			}
		}
	}
	// zone changes are delivered in the same request
	if r.err == nil {
		delivered := map[string]string{}
		note := func(id string, lr *nri.LinuxResources) {
			if lr != nil && lr.Cpu != nil && lr.Cpu.Mems != "" {
				delivered[id] = lr.Cpu.Mems
			}
		}
		if r.adjust != nil && r.adjust.Linux != nil {
			note(r.target, r.adjust.Linux.Resources)
		}
		for _, u := range r.updates {
			if u.Linux != nil {
				note(u.ContainerId, u.Linux.Resources)
			}
		}
		for _, p := range r.pushed {
			for _, u := range p {
				if u.Linux != nil {
					note(u.ContainerId, u.Linux.Resources)
				}
			}
		}
		for id, z := range now {
			pz, had := o.prevZone[id]
			if !had || pz == z {
				continue
			}
			y := w.rt.ctrs[id]
			if y == nil || (y.state != "created" && y.state != "running") || !o.memPinned(y) || id == r.target {
				continue
			}
			res.Probe("zone-of-other-container-changed")
			res.Check("zone-change-delivered")
			want := maskString(libmem.NodeMask(z))
			if got, ok := delivered[id]; !ok || !parseSet(got).equal(parseSet(want)) {
				rep("zone-change-delivered", "zone-change-delivered via-"+r.kind, "%s moved the memory zone of %s from %q to %q but the reply tells it %q", r.kind, id, maskString(libmem.NodeMask(pz)), want, got)
			}
		}
	}
}

// ---------------------------------------------------------------------------
// C09

func (o *oracles) holdsAnything(id string) string {
	w := o.w
	if w.plan.Policy == "topology-aware" {
		if sn := o.taSnap(); sn != nil {
			for _, g := range sn.Grants {
				if g.Container == id {
					return "a grant in pool " + g.Pool
				}
			}
		}
	} else if sn := o.balSnap(); sn != nil {
		if b, n := balloonOf(sn, id); n > 0 {
			return fmt.Sprintf("membership in balloon %s[%d]", b.Def, b.Instance)
		}
	}
	if a := o.memAllocator(); a != nil {
		if z, ok := a.AssignedZone(id); ok {
			return "a memory allocation in " + z.String()
		}
	}
	return ""
}

func (o *oracles) checkC09Stopped(rep reporter) {
	w := o.w
	for _, y := range w.rt.live() {
		if y.state != "stopped" || !y.stopSeen {
			continue
		}
		w.res.Check("stopped-holds-nothing")
		if what := o.holdsAnything(y.spec.ID); what != "" {
			rep("stopped-holds-nothing", "stopped-holds-nothing after-"+o.lastKind, "container %s was stopped but holds %s after %s", y.spec.ID, what, o.lastKind)
		}
	}
}

// pristineDump renders what the policy state must look like with no containers.
func (o *oracles) pristineDump() string {
	var b strings.Builder
	w := o.w
	if w.plan.Policy == "balloons" {
		// the statement speaks of sizes and capacities: which CPUs a
		// pre-created balloon ends up with is not part of it (weaker reading)
		// ... nor is the instance number a surviving pre-created balloon carries
		var ls []string
		for _, l := range strings.Split(o.zonesDump(), "\n") {
			ls = append(ls, instanceNo.ReplaceAllString(cpusetsToSizes(l), "[]"))
		}
		sort.Strings(ls)
		b.WriteString(strings.Join(ls, "\n"))
		b.WriteString("\n")
	} else {
		b.WriteString(o.zonesDump())
	}
	if w.plan.Policy == "topology-aware" {
		if sn := o.taSnap(); sn != nil {
			fmt.Fprintf(&b, "grants=%d\n", len(sn.Grants))
			for _, p := range sn.Pools {
				fmt.Fprintf(&b, "P %s free=(%s|%s|%s) total=(%s|%s|%s) granted=(%d,%d)\n", p.Name, p.FreeIsolated, p.FreeReserved, p.FreeSharable, p.Isolated, p.Reserved, p.Sharable, p.GrantedShared, p.GrantedReserved)
			}
		}
	} else if sn := o.balSnap(); sn != nil {
		fmt.Fprintf(&b, "free=%d cpus\n", len(parseSet(sn.FreeCpus)))
		bs := append([]balloons.VerifBalloon(nil), sn.Balloons...)
		sort.Slice(bs, func(i, j int) bool {
			if bs[i].Def != bs[j].Def {
				return bs[i].Def < bs[j].Def
			}
			return bs[i].Instance < bs[j].Instance
		})
		var ls []string
		for _, bl := range bs {
			ls = append(ls, fmt.Sprintf("B %s[] ncpus=%d members=%d", bl.Def, len(parseSet(bl.Cpus)), len(bl.Members)))
		}
		sort.Strings(ls)
		b.WriteString(strings.Join(ls, "\n") + "\n")
	}
	if a := o.memAllocator(); a != nil {
		n := 0
		a.ForeachRequest(nil, func(*libmem.Request) bool { n++; return true })
		fmt.Fprintf(&b, "memrequests=%d\n", n)
	}
	fmt.Fprintf(&b, "cached-containers=%d\n", len(w.cache().GetContainers()))
	return b.String()
}

func (o *oracles) checkC09End(rep reporter) {
	w := o.w
	// stop and remove everything through the plugin
	n := 1000
	do := func(op Op) {
		n++
		op.N = n
		w.vw.SetRequest(fmt.Sprintf("teardown%d", n))
		w.doOp(&op)
	}
	for _, y := range w.rt.live() {
		if y.state == "created" || y.state == "running" {
			do(Op{Kind: "stop", ID: y.spec.ID})
		}
	}
	if w.dead {
		return
	}
	o.lastKind = "teardown-stop"
	o.checkC09Stopped(rep)
	for _, y := range w.rt.live() {
		if y.state == "stopped" {
			do(Op{Kind: "remove", ID: y.spec.ID})
		}
	}
	for _, id := range sortedKeys(w.rt.pods) {
		if w.rt.pods[id].state == "running" {
			do(Op{Kind: "stop-pod", ID: id})
		}
	}
	for _, id := range sortedKeys(w.rt.pods) {
		if w.rt.pods[id].state == "stopped" {
			do(Op{Kind: "remove-pod", ID: id})
		}
	}
	if w.dead {
		return
	}
	got := o.pristineDump()
	rejected := w.rejectedReconf
	// fresh twin with the last accepted configuration on the same machine
	tw := &world{plan: w.plan, prop: w.prop, seed: w.seed, res: w.res, vw: w.vw, root: w.root + "/twin", rt: newRuntime(), everActive: map[string]bool{}}
	w.vw.SetRequest("twin-boot")
	if err := w.plan.Machine.Render(filepath.Join(tw.root, "host")); err != nil {
		panic(err)
	}
	if err := tw.bootRecover(w.cfg); err != nil {
		// the configuration the plugin runs with was accepted (at start or by
		// a reconfiguration) but a fresh instance refuses it
		if len(w.res.Violations) > 0 {
			return // start-up panicked: recorded by bootRecover
		}
		// fail loudly: a silent return here once disabled this whole check
		panic(fmt.Sprintf("harness: fresh twin instance refuses the configuration the plugin runs with: %v", err))
	}
	to := newOracles(tw)
	rp := &reply{kind: "sync"}
	tw.synchronize(rp)
	want := to.pristineDump()
	w.res.Check("pristine-after-teardown")
	if os.Getenv("VERIF_TRACE") != "" {
		fmt.Fprintf(os.Stderr, "TRACE teardown state:\n%s\nTRACE fresh state:\n%s\n", got, want)
	}
	if got != want {
		ctx := ""
		if rejected {
			ctx = " after-rejected-reconfigure"
		}
		rep("pristine-after-teardown", "pristine-after-teardown "+w.plan.Policy+ctx+" "+firstDiffKind(want, got), "after stopping and removing everything the policy state differs from a fresh instance with the same configuration:\n%s", firstDiffLines(want, got))
	}
}

func firstDiffLines(a, b string) string {
	la, lb := strings.Split(a, "\n"), strings.Split(b, "\n")
	var out []string
	for i := 0; i < len(la) || i < len(lb); i++ {
		var x, y string
		if i < len(la) {
			x = la[i]
		}
		if i < len(lb) {
			y = lb[i]
		}
		if x != y {
			out = append(out, " fresh: "+x, " got:   "+y)
			if len(out) >= 8 {
				break
			}
		}
	}
	return strings.Join(out, "\n")
}

func firstDiffKind(a, b string) string {
	la, lb := strings.Split(a, "\n"), strings.Split(b, "\n")
	for i := 0; i < len(la) || i < len(lb); i++ {
		var x, y string
		if i < len(la) {
			x = la[i]
		}
		if i < len(lb) {
			y = lb[i]
		}
		if x != y {
			for _, z := range []string{x, y} {
				switch {
				case strings.HasPrefix(z, "Z "):
					return "zones"
				case strings.HasPrefix(z, "P "):
					return "pool-supply"
				case strings.HasPrefix(z, "B "):
					return "balloons"
				case strings.HasPrefix(z, "grants="):
					return "grants"
				case strings.HasPrefix(z, "free="):
					return "idle-cpus"
				case strings.HasPrefix(z, "memrequests="):
					return "memory-allocations"
				case strings.HasPrefix(z, "cached-containers="):
					return "cached-containers"
				}
			}
		}
	}
	return "other"
}

// ---------------------------------------------------------------------------
// C08: checking decorator around the policies' CPU allocator

type allocMonitor struct {
	inner cpuallocator.CPUAllocator
	o     *oracles
}

func (m *allocMonitor) GetCPUPriorities() map[cpuallocator.CPUPriority]cpuset.CPUSet {
	return m.inner.GetCPUPriorities()
}

func (m *allocMonitor) check(kind string, before cpuset.CPUSet, from *cpuset.CPUSet, cnt int, got cpuset.CPUSet, err error, redo func(*cpuset.CPUSet) (cpuset.CPUSet, error)) {
	w := m.o.w
	res := w.res
	rep := m.o.report("C08")
	res.Check("contract")
	res.Extra[fmt.Sprintf("alloc-calls/%s", kind)]++
	switch {
	case cnt > before.Size():
		if err == nil {
			rep("contract", "contract "+kind+" too-many-accepted", "%s of %d CPUs from %s (only %d) succeeded with %s", kind, cnt, before, before.Size(), got)
		} else if !from.Equals(before) {
			rep("contract", "contract "+kind+" failed-call-changed-set", "failed %s of %d CPUs changed the candidate set from %s to %s", kind, cnt, before, *from)
		}
	case err != nil:
		if cnt >= 0 {
			rep("contract", "contract "+kind+" refused", "%s of %d CPUs from %s (%d CPUs) failed: %v", kind, cnt, before, before.Size(), err)
		}
	default:
		// ReleaseCpus splits the set into the n released CPUs and the others;
		// which of the two parts is returned and which is left in the set is
		// not spelled out by the property: either assignment is accepted
		okCount := got.Size() == cnt
		if kind == "release" {
			okCount = got.Size() == cnt || got.Size() == before.Size()-cnt
		}
		if !okCount {
			rep("contract", "contract "+kind+" count", "%s of %d CPUs from %s returned %d CPUs (%s)", kind, cnt, before, got.Size(), got)
		}
		if !got.IsSubsetOf(before) {
			rep("contract", "contract "+kind+" subset", "%s of %d CPUs from %s returned %s, not a subset", kind, cnt, before, got)
		}
		if !from.Equals(before.Difference(got)) {
			rep("contract", "contract "+kind+" bookkeeping", "%s of %d CPUs from %s returned %s but left the set as %s", kind, cnt, before, got, *from)
		}
	}
	// determinism: the outcome may not depend on map iteration order
	if cnt <= before.Size() && cnt >= 0 {
		for _, salt := range []uint64{0x1111, 0x2222} {
			res.Check("deterministic")
			old := w.vw.OrderSalt
			w.vw.OrderSalt = salt
			cp := before.Clone()
			g2, e2 := redo(&cp)
			w.vw.OrderSalt = old
			if (e2 == nil) != (err == nil) || !g2.Equals(got) {
				rep("deterministic", "deterministic "+kind, "%s of %d CPUs from %s gives %s under one map iteration order and %s under another", kind, cnt, before, got, g2)
				break
			}
		}
	}
}

func (m *allocMonitor) AllocateCpus(from *cpuset.CPUSet, cnt int, options ...cpuallocator.Option) (cpuset.CPUSet, error) {
	before := from.Clone()
	got, err := m.inner.AllocateCpus(from, cnt, options...)
	m.check("allocate", before, from, cnt, got, err, func(cp *cpuset.CPUSet) (cpuset.CPUSet, error) { return m.inner.AllocateCpus(cp, cnt, options...) })
	return got, err
}

func (m *allocMonitor) ReleaseCpus(from *cpuset.CPUSet, cnt int, options ...cpuallocator.Option) (cpuset.CPUSet, error) {
	before := from.Clone()
	got, err := m.inner.ReleaseCpus(from, cnt, options...)
	m.check("release", before, from, cnt, got, err, func(cp *cpuset.CPUSet) (cpuset.CPUSet, error) { return m.inner.ReleaseCpus(cp, cnt, options...) })
	return got, err
}

// exerciseAllocator: besides the calls the policies make, C08 quantifies over
// all candidate sets, counts, priorities and flag combinations: one long-lived
// monitored allocator on the discovered system is driven with seeded direct
// calls, each starting from what the previous one left (multi-step history on
// one allocator) or from a fresh random subset of the online CPUs.
func (o *oracles) exerciseAllocator(n int) {
	w := o.w
	if o.xAlloc == nil {
		sys, err := sysfs.DiscoverSystem()
		if err != nil {
			return
		}
		o.xAlloc = &allocMonitor{inner: cpuallocator.NewCPUAllocator(sys), o: o}
		// a second instance whose topology discovery ran under another map
		// iteration order: the outcome must not depend on the instance
		salt := w.vw.OrderSalt
		w.vw.OrderSalt = 0x3333
		if sys2, err := sysfs.DiscoverSystem(); err == nil {
			o.xAlloc2 = cpuallocator.NewCPUAllocator(sys2)
		}
		w.vw.OrderSalt = salt
		o.xRand = verifrt.NewRand(verifrt.Mix(w.seed, "c08-direct"))
		o.xOnline = sys.OnlineCPUs().List()
	}
	r := o.xRand
	for i := 0; i < n; i++ {
		if o.xSet.Size() == 0 || r.Chance(0.35) {
			ids := []int{}
			p := 0.2 + 0.8*r.Float64()
			for _, id := range o.xOnline {
				if r.Chance(p) {
					ids = append(ids, id)
				}
			}
			o.xSet = cpuset.New(ids...)
		}
		cnt := r.Intn(o.xSet.Size() + 2)
		opts := []cpuallocator.Option{cpuallocator.WithPriority(cpuallocator.CPUPriority(r.Intn(int(cpuallocator.NumCPUPriorities))))}
		if r.Chance(0.6) {
			opts = append(opts, cpuallocator.WithAllocFlags(cpuallocator.AllocFlag(r.Intn(16))))
		}
		set, set2 := o.xSet.Clone(), o.xSet.Clone()
		alloc := r.Chance(0.75)
		var got, got2 cpuset.CPUSet
		var err, err2 error
		if alloc {
			got, err = o.xAlloc.AllocateCpus(&set, cnt, opts...)
		} else {
			got, err = o.xAlloc.ReleaseCpus(&set, cnt, opts...)
		}
		if o.xAlloc2 != nil {
			if alloc {
				got2, err2 = o.xAlloc2.AllocateCpus(&set2, cnt, opts...)
			} else {
				got2, err2 = o.xAlloc2.ReleaseCpus(&set2, cnt, opts...)
			}
			w.res.Check("deterministic")
			if (err == nil) != (err2 == nil) || !got.Equals(got2) || !set.Equals(set2) {
				w.res.Violate("C08", "deterministic", "C08 deterministic across-allocator-instances", w.step,
					"two allocators created on the same system give different outcomes for the same call (%d CPUs of %s): %s (left %s, err %v) vs %s (left %s, err %v)", cnt, o.xSet, got, set, err, got2, set2, err2)
			}
		}
		o.xSet = set
	}
}

func (o *oracles) wrapAllocator() {
	if o.w.prop != "C08" {
		return
	}
	wrap := func(in cpuallocator.CPUAllocator) cpuallocator.CPUAllocator {
		if _, ok := in.(*allocMonitor); ok {
			return in
		}
		return &allocMonitor{inner: in, o: o}
	}
	if o.w.plan.Policy == "balloons" {
		balloons.VerifWrapCPUAllocator(o.w.backend(), wrap)
	} else {
		topologyaware.VerifWrapCPUAllocator(o.w.backend(), wrap)
	}
}

// ---------------------------------------------------------------------------
// C16: discovery fidelity and pool tree

func idsOf(s cpuset.CPUSet) cset { return setOf(s.List()) }

func (o *oracles) checkC16(rep reporter) {
	w := o.w
	m := w.plan.Machine
	res := w.res
	sys, err := sysfs.DiscoverSystem()
	if err != nil {
		rep("discovery", "discovery failed", "discovery of the rendered machine %s failed: %v", m.Name, err)
		return
	}
	res.Check("discovery")
	bad := func(what string, format string, a ...any) {
		rep("discovery", "discovery "+what, "machine %s: "+format, append([]any{m.Name}, a...)...)
	}
	online := setOf(m.Online())
	if got := idsOf(sys.OnlineCPUs()); !got.equal(online) {
		bad("online", "online CPUs discovered %s, rendered %s", got, online)
	}
	if got := idsOf(sys.Isolated()); !got.equal(setOf(m.IsolatedCPUs())) {
		bad("isolated", "isolated CPUs discovered %s, rendered %s", got, setOf(m.IsolatedCPUs()))
	}
	present := setOf(m.Present())
	if got := setOf(sys.CPUIDs()); !got.equal(present) {
		bad("cpu-ids", "CPU ids discovered %s, rendered %s", got, present)
	}
	for _, c := range m.CPUs {
		if !c.Online {
			continue
		}
		d := sys.CPU(c.ID)
		if d == nil {
			bad("cpu-missing", "CPU %d not discovered", c.ID)
			continue
		}
		if d.PackageID() != c.Pkg || d.NodeID() != c.Node || d.CoreID() != c.Core {
			bad("cpu-placement", "CPU %d discovered as package %d node %d core %d, rendered package %d node %d core %d", c.ID, d.PackageID(), d.NodeID(), d.CoreID(), c.Pkg, c.Node, c.Core)
		}
		if m.HasDieID && d.DieID() != c.Die {
			bad("cpu-die", "CPU %d discovered in die %d, rendered die %d", c.ID, d.DieID(), c.Die)
		}
		if got := idsOf(d.ThreadCPUSet()); !got.equal(setOf(c.Siblings)) {
			bad("thread-siblings", "CPU %d thread siblings discovered %s, rendered %s", c.ID, got, setOf(c.Siblings))
		}
		if m.HasCache {
			for _, ch := range d.GetCaches() {
				var want cset
				switch ch.Level() {
				case 1:
					want = setOf(c.Siblings)
				case 2:
					want = setOf(c.L2)
				case 3:
					want = setOf(c.L3)
				default:
					continue
				}
				if got := idsOf(ch.SharedCPUSet()); !got.equal(want) {
					bad("cache-sharing", "CPU %d level-%d cache shared by %s, rendered %s", c.ID, ch.Level(), got, want)
				}
			}
		}
	}
	// package and die level: CPUs and NUMA nodes of every package and die
	{
		type key struct{ pkg, die int }
		pkgCPUs, pkgNodes := map[int]cset{}, map[int]cset{}
		dieCPUs, dieNodes := map[key]cset{}, map[key]cset{}
		add := func(m map[int]cset, k, v int) {
			if m[k] == nil {
				m[k] = cset{}
			}
			m[k][v] = true
		}
		for _, c := range m.CPUs {
			if !c.Online {
				continue
			}
			add(pkgCPUs, c.Pkg, c.ID)
			add(pkgNodes, c.Pkg, c.Node)
			k := key{c.Pkg, c.Die}
			if !m.HasDieID {
				k.die = 0
			}
			if dieCPUs[k] == nil {
				dieCPUs[k], dieNodes[k] = cset{}, cset{}
			}
			dieCPUs[k][c.ID], dieNodes[k][c.Node] = true, true
		}
		for pkg, want := range pkgCPUs {
			dp := sys.Package(pkg)
			if dp == nil {
				bad("package-missing", "package %d not discovered", pkg)
				continue
			}
			if got := idsOf(dp.CPUSet()); !got.equal(want) {
				bad("package-cpus", "package %d CPUs discovered %s, rendered %s", pkg, got, want)
			}
			if got := setOf(dp.NodeIDs()); !got.equal(pkgNodes[pkg]) {
				bad("package-nodes", "package %d NUMA nodes discovered %s, rendered %s", pkg, got, pkgNodes[pkg])
			}
			for k, wantCPUs := range dieCPUs {
				if k.pkg != pkg {
					continue
				}
				if got := idsOf(dp.DieCPUSet(k.die)); !got.equal(wantCPUs) {
					bad("die-cpus", "package %d die %d CPUs discovered %s, rendered %s", pkg, k.die, got, wantCPUs)
				}
				if got := setOf(dp.DieNodeIDs(k.die)); !got.equal(dieNodes[k]) {
					bad("die-nodes", "package %d die %d NUMA nodes discovered %s, rendered %s", pkg, k.die, got, dieNodes[k])
				}
			}
		}
	}
	for _, n := range m.Nodes {
		d := sys.Node(n.ID)
		if d == nil {
			bad("node-missing", "node %d not discovered", n.ID)
			continue
		}
		if got := idsOf(d.CPUSet()); !got.equal(setOf(n.CPUs)) {
			bad("node-cpus", "node %d CPUs discovered %s, rendered %s", n.ID, got, setOf(n.CPUs))
		}
		if mi, err := d.MemoryInfo(); err != nil || mi.MemTotal != n.MemKB*1024 {
			var gotv uint64
			if mi != nil {
				gotv = mi.MemTotal
			}
			bad("node-memory", "node %d memory discovered %d (err %v), rendered %d", n.ID, gotv, err, n.MemKB*1024)
		}
		for _, o2 := range m.Nodes {
			if got := sys.NodeDistance(n.ID, o2.ID); got != n.Distance[o2.ID] {
				bad("node-distance", "distance %d->%d discovered %d, rendered %d", n.ID, o2.ID, got, n.Distance[o2.ID])
				break
			}
		}
	}
	// pool tree (topology-aware)
	sn := o.taSnap()
	if sn == nil {
		return
	}
	res.Check("pool-tree")
	treeBad := func(what string, format string, a ...any) {
		rep("pool-tree", "pool-tree "+what, "machine %s: "+format, append([]any{m.Name}, a...)...)
	}
	pools := map[string]*topologyaware.VerifPool{}
	roots := 0
	for i := range sn.Pools {
		pools[sn.Pools[i].Name] = &sn.Pools[i]
		if sn.Pools[i].Parent == "" {
			roots++
		}
	}
	if roots != 1 {
		treeBad("single-root", "%d root pools", roots)
	}
	cpusOf := func(p *topologyaware.VerifPool) cset {
		return parseSet(p.Isolated).union(parseSet(p.Reserved)).union(parseSet(p.Sharable))
	}
	avail := o.available()
	if root := pools[sn.Root]; root != nil {
		if got := cpusOf(root); !got.equal(avail) {
			treeBad("root-holds-available", "root pool holds CPUs %s, available CPUs are %s", got, avail)
		}
		// every memory node with memory belongs to the root
		rootMem := setOf(root.MemDRAM).union(setOf(root.MemPMEM)).union(setOf(root.MemHBM))
		for _, n := range m.Nodes {
			if n.MemKB > 0 && !rootMem[n.ID] {
				treeBad("root-holds-memory", "memory node %d (%s, %d kB) is not in the root pool's memory set %s", n.ID, n.Type, n.MemKB, rootMem)
			}
		}
	}
	for _, p := range sn.Pools {
		iso, rs, sh := parseSet(p.Isolated), parseSet(p.Reserved), parseSet(p.Sharable)
		if len(iso.inter(rs))+len(iso.inter(sh))+len(rs.inter(sh)) > 0 {
			treeBad("partition", "pool %s: isolated %s, reserved %s and sharable %s overlap", p.Name, iso, rs, sh)
		}
		mine := cpusOf(&p)
		var kids []cset
		for _, cn := range p.Children {
			c := pools[cn]
			if c == nil {
				treeBad("dangling-child", "pool %s lists unknown child %s", p.Name, cn)
				continue
			}
			kc := cpusOf(c)
			if !kc.subsetOf(mine) {
				treeBad("parent-contains-child", "pool %s (%s) does not contain the CPUs of its child %s (%s)", p.Name, mine, cn, kc)
			}
			for _, prev := range kids {
				if len(prev.inter(kc)) > 0 {
					treeBad("siblings-disjoint", "children of pool %s overlap on CPUs %s", p.Name, prev.inter(kc))
				}
			}
			kids = append(kids, kc)
			pm := setOf(p.MemDRAM).union(setOf(p.MemPMEM)).union(setOf(p.MemHBM))
			cm := setOf(c.MemDRAM).union(setOf(c.MemPMEM)).union(setOf(c.MemHBM))
			if !cm.subsetOf(pm) {
				what := "child-memory-subset"
				onlyMemless := true
				for id := range cm.minus(pm) {
					for _, n := range m.Nodes {
						if n.ID == id && n.MemKB > 0 {
							onlyMemless = false
						}
					}
				}
				if onlyMemless {
					what += " memoryless-node-in-pool"
				}
				treeBad(what, "pool %s memory nodes %s are not a subset of its parent %s's %s", cn, cm, p.Name, pm)
			}
		}
		if p.Parent != "" && pools[p.Parent] == nil {
			treeBad("dangling-parent", "pool %s names unknown parent %s", p.Name, p.Parent)
		}
	}
	// "sockets, dies and NUMA nodes below, redundant levels omitted": a NUMA
	// node with CPUs and memory is a level of the tree unless a die or socket
	// pool already stands for exactly its CPUs
	for _, n := range m.Nodes {
		if n.MemKB == 0 || len(n.CPUs) == 0 {
			continue
		}
		mine := setOf(n.CPUs).inter(online).inter(avail)
		if len(mine) == 0 {
			continue
		}
		res.Check("numa-level")
		found := false
		for i := range sn.Pools {
			if cpusOf(&sn.Pools[i]).equal(mine) {
				found = true
			}
		}
		if !found {
			treeBad("numa-level", "no pool stands for NUMA node %d (%s, %d kB, normal=%v), whose available CPUs are %s", n.ID, n.Type, n.MemKB, n.Normal, mine)
		}
	}
	// CPU-less PMEM/HBM nodes are attached exactly to the pools that contain
	// one of their closest CPU-bearing DRAM nodes
	for _, n := range m.Nodes {
		if n.Type == "dram" || n.MemKB == 0 || len(n.CPUs) > 0 {
			continue
		}
		best := 1 << 30
		for _, d := range m.Nodes {
			if d.Type == "dram" && len(d.CPUs) > 0 && n.Distance[d.ID] < best {
				best = n.Distance[d.ID]
			}
		}
		closest := cset{}
		for _, d := range m.Nodes {
			if d.Type == "dram" && len(d.CPUs) > 0 && n.Distance[d.ID] == best {
				closest[d.ID] = true
			}
		}
		for _, p := range sn.Pools {
			if p.Name == sn.Root {
				continue // the root holds every memory node
			}
			special := setOf(p.MemPMEM).union(setOf(p.MemHBM))
			hasIt := special[n.ID]
			should := len(setOf(p.MemDRAM).inter(closest)) > 0
			res.Check("special-memory-attachment")
			if hasIt != should {
				treeBad("special-memory-attachment", "%s node %d (closest CPU-bearing DRAM nodes %s) attached=%v to pool %s (DRAM nodes %v), expected %v", n.Type, n.ID, closest, hasIt, p.Name, p.MemDRAM, should)
			}
		}
	}
}

var instanceNo = regexp.MustCompile(`\[[0-9]+\]`)

var cpusetAttr = regexp.MustCompile(`(cpuset|shared cpuset)="([^"]*)"`)

// cpusetsToSizes replaces the CPU sets in a zone line by their sizes.
func cpusetsToSizes(l string) string {
	return cpusetAttr.ReplaceAllStringFunc(l, func(m string) string {
		sub := cpusetAttr.FindStringSubmatch(m)
		if sub[1] == "shared cpuset" {
			// the idle CPUs an empty balloon would share are recomputed when
			// a container joins it; C02 judges them for non-empty balloons
			return "shared cpuset=-"
		}
		return fmt.Sprintf("%s=%d cpus", sub[1], len(parseSet(sub[2])))
	})
}
