package main

import (
	"github.com/containers/nri-plugins/pkg/resmgr"
	policyapi "github.com/containers/nri-plugins/pkg/resmgr/policy"
)

func policyPolicy(w *world) policyapi.Policy { return resmgr.VerifPolicy(w.rm) }

type c13state struct{}

func (o *oracles) checkC04(rep reporter, r *reply) {}
func (o *oracles) checkC09Stopped(rep reporter)    {}
func (o *oracles) checkC09End(rep reporter)        {}
func (o *oracles) checkC11(rep reporter, r *reply) {}
func (o *oracles) checkC13(rep reporter, r *reply) {}
func (o *oracles) checkC16(rep reporter)           {}
func (o *oracles) wrapAllocator()                  {}
