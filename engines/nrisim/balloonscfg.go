package main

import (
	"fmt"

	metav1 "k8s.io/apimachinery/pkg/apis/meta/v1"

	cfgapi "github.com/containers/nri-plugins/pkg/apis/config/v1alpha1"
	policycfg "github.com/containers/nri-plugins/pkg/apis/config/v1alpha1/resmgr/policy"
	bcfg "github.com/containers/nri-plugins/pkg/apis/config/v1alpha1/resmgr/policy/balloons"
	resmgrapi "github.com/containers/nri-plugins/pkg/apis/resmgr/v1alpha1"

	"verifh/machine"
	"verifh/verifrt"
)

type BalloonType struct {
	Name            string   `json:"name"`
	Namespaces      []string `json:"namespaces,omitempty"`
	MatchLabel      string   `json:"matchLabel,omitempty"` // matchExpressions: pod/labels/app In [value]
	GroupBy         string   `json:"groupBy,omitempty"`
	MinCpus         int      `json:"minCPUs,omitempty"`
	MaxCpus         int      `json:"maxCPUs,omitempty"`
	MinBalloons     int      `json:"minBalloons,omitempty"`
	MaxBalloons     int      `json:"maxBalloons,omitempty"`
	PreferNew       bool     `json:"preferNewBalloons,omitempty"`
	PreferSpreading bool     `json:"preferSpreadingPods,omitempty"`
	PerNamespace    bool     `json:"preferPerNamespaceBalloon,omitempty"`
	ShareIdle       string   `json:"shareIdleCPUsInSame,omitempty"`
	HideHT          *bool    `json:"hideHyperthreads,omitempty"`
	PinMemory       *bool    `json:"pinMemory,omitempty"`
	MemoryTypes     []string `json:"memoryTypes,omitempty"`
	CpuClass        string   `json:"cpuClass,omitempty"`
	Loads           []string `json:"loads,omitempty"`
	PreferIsol      bool     `json:"preferIsolCpus,omitempty"`
	PreferCoreType  string   `json:"preferCoreType,omitempty"`
	AllocPrio       string   `json:"allocatorPriority,omitempty"`
	SpreadCores     *bool    `json:"preferSpreadOnPhysicalCores,omitempty"`
	TopoBalancing   *bool    `json:"allocatorTopologyBalancing,omitempty"`
}

type BalloonsCfg struct {
	Types          []BalloonType `json:"types"`
	IdleCpuClass   string        `json:"idleCPUClass,omitempty"`
	PinCPUNil      bool          `json:"pinCPUnil,omitempty"` // leave pinCPU unset (defaults to true)
	PinMemoryNil   bool          `json:"pinMemorynil,omitempty"`
	TopoBalancing  bool          `json:"allocatorTopologyBalancing,omitempty"`
	SpreadCores    bool          `json:"preferSpreadOnPhysicalCores,omitempty"`
	PreserveLabel  string        `json:"preserveLabel,omitempty"` // preserve rule: pod/labels/app In [value]
	PreserveName   string        `json:"preserveName,omitempty"`  // second expression of the preserve rule: name Equals value
	ShowContainers bool          `json:"showContainersInNrt,omitempty"`
	LoadClasses    []LoadClass   `json:"loadClasses,omitempty"`
}

type LoadClass struct {
	Name      string `json:"name"`
	Level     string `json:"level"`
	Overloads bool   `json:"overloads,omitempty"`
}

func labelExpr(value string) resmgrapi.Expression {
	return resmgrapi.Expression{Key: "pod/labels/app", Op: resmgrapi.In, Values: []string{value}}
}

func renderBalloonsCfg(c *CfgSpec, meta metav1.ObjectMeta) (cfgapi.ResmgrConfig, error) {
	cfg := &cfgapi.BalloonsPolicy{ObjectMeta: meta}
	pc := &cfg.Spec.Config
	b := c.Balloons
	if b == nil {
		b = &BalloonsCfg{}
	}
	if !b.PinCPUNil {
		pc.PinCPU = boolp(c.PinCPU)
	}
	if !b.PinMemoryNil {
		pc.PinMemory = boolp(c.PinMemory)
	}
	pc.IdleCpuClass = b.IdleCpuClass
	pc.ReservedPoolNamespaces = c.ResNS
	pc.AllocatorTopologyBalancing = b.TopoBalancing
	pc.PreferSpreadOnPhysicalCores = b.SpreadCores
	pc.ShowContainersInNrt = boolp(b.ShowContainers)
	if c.Available != "" {
		pc.AvailableResources = policycfg.Constraints{policycfg.CPU: policycfg.Amount("cpuset:" + c.Available)}
	}
	if c.Reserved != "" {
		pc.ReservedResources = policycfg.Constraints{policycfg.CPU: policycfg.Amount(c.Reserved)}
	}
	if b.PreserveLabel != "" || b.PreserveName != "" {
		pc.Preserve = &bcfg.ContainerMatchConfig{}
		if b.PreserveLabel != "" {
			pc.Preserve.MatchExpressions = append(pc.Preserve.MatchExpressions, labelExpr(b.PreserveLabel))
		}
		if b.PreserveName != "" {
			pc.Preserve.MatchExpressions = append(pc.Preserve.MatchExpressions, resmgrapi.Expression{Key: "name", Op: resmgrapi.Equals, Values: []string{b.PreserveName}})
		}
	}
	for _, lc := range b.LoadClasses {
		pc.LoadClasses = append(pc.LoadClasses, bcfg.LoadClass{Name: lc.Name, Level: bcfg.CPUTopologyLevel(lc.Level), OverloadsLevelInBalloon: lc.Overloads})
	}
	for _, t := range b.Types {
		d := &bcfg.BalloonDef{
			Name: t.Name, Namespaces: t.Namespaces, GroupBy: t.GroupBy, MinCpus: t.MinCpus, MaxCpus: t.MaxCpus,
			MinBalloons: t.MinBalloons, MaxBalloons: t.MaxBalloons, PreferNewBalloons: t.PreferNew,
			PreferSpreadingPods: t.PreferSpreading, PreferPerNamespaceBalloon: t.PerNamespace,
			ShareIdleCpusInSame: bcfg.CPUTopologyLevel(t.ShareIdle), HideHyperthreads: t.HideHT, PinMemory: t.PinMemory,
			MemoryTypes: t.MemoryTypes, CpuClass: t.CpuClass, Loads: t.Loads, PreferIsolCpus: t.PreferIsol,
			PreferCoreType: t.PreferCoreType, AllocatorPriority: bcfg.CPUPriority(t.AllocPrio),
			PreferSpreadOnPhysicalCores: t.SpreadCores, AllocatorTopologyBalancing: t.TopoBalancing,
		}
		if t.MatchLabel != "" {
			d.MatchExpressions = []resmgrapi.Expression{labelExpr(t.MatchLabel)}
		}
		pc.BalloonDefs = append(pc.BalloonDefs, d)
	}
	return cfg, nil
}

func genBalloonsCfg(r *verifrt.Rand, m *machine.Machine) *CfgSpec {
	ta := genTACfg(r, m) // reuse available/reserved generation
	c := &CfgSpec{Policy: "balloons", Available: ta.Available, Reserved: ta.Reserved, PinCPU: !r.Chance(0.08), PinMemory: !r.Chance(0.15), ResNS: ta.ResNS}
	b := &BalloonsCfg{PinCPUNil: r.Chance(0.2), PinMemoryNil: r.Chance(0.2), TopoBalancing: r.Chance(0.4), SpreadCores: r.Chance(0.3), ShowContainers: r.Chance(0.5)}
	ncpu := len(m.Online())
	levels := []string{"", "", "system", "package", "die", "numa", "l2cache", "core"}
	if r.Chance(0.3) {
		b.IdleCpuClass = "idle-class"
	}
	if r.Chance(0.3) {
		b.LoadClasses = []LoadClass{{Name: "avx", Level: verifrt.Pick(r, []string{"core", "l2cache"}), Overloads: r.Chance(0.3)}, {Name: "membw", Level: verifrt.Pick(r, []string{"numa", "package"})}}
	}
	if r.Chance(0.15) {
		b.PreserveLabel = "a2"
	}
	if r.Chance(0.12) {
		b.PreserveName = "c1" // a container matching any expression of the list is preserved
	}
	ntypes := r.Range(0, 3)
	for i := 0; i < ntypes; i++ {
		t := BalloonType{Name: fmt.Sprintf("bt%d", i)}
		switch r.Intn(4) {
		case 0:
			t.Namespaces = []string{verifrt.Pick(r, []string{"ns1", "default", "mon*"})}
		case 1:
			t.MatchLabel = fmt.Sprintf("a%d", r.Intn(3))
		case 2:
			t.Namespaces = []string{"ns1"}
			t.MatchLabel = "a0"
		}
		if r.Chance(0.3) {
			t.GroupBy = verifrt.Pick(r, []string{"${pod/namespace}", "${pod/labels/app}", "${pod/name}"})
		}
		if r.Chance(0.5) {
			t.MinCpus = r.Range(0, 3)
		}
		if r.Chance(0.5) {
			t.MaxCpus = t.MinCpus + r.Range(0, 6)
			if t.MaxCpus == 0 {
				t.MaxCpus = r.Range(1, 4)
			}
		}
		if r.Chance(0.4) {
			t.MinBalloons = r.Range(0, 2)
		}
		if r.Chance(0.4) {
			t.MaxBalloons = t.MinBalloons + r.Range(0, 3)
		}
		// keep pre-created balloons satisfiable most of the time
		if t.MinBalloons*t.MinCpus > ncpu/2 {
			t.MinBalloons, t.MinCpus = 1, 1
		}
		t.PreferNew = r.Chance(0.3)
		t.PreferSpreading = r.Chance(0.3)
		t.PerNamespace = r.Chance(0.2)
		t.ShareIdle = verifrt.Pick(r, levels)
		if r.Chance(0.25) {
			t.HideHT = boolp(r.Chance(0.7))
		}
		if r.Chance(0.2) {
			t.PinMemory = boolp(r.Chance(0.5))
		}
		if r.Chance(0.2) {
			t.MemoryTypes = []string{verifrt.Pick(r, []string{"dram", "pmem", "hbm"})}
		}
		if r.Chance(0.3) {
			t.CpuClass = fmt.Sprintf("class%d", r.Intn(2))
		}
		if len(b.LoadClasses) > 0 && r.Chance(0.5) {
			t.Loads = []string{verifrt.Pick(r, []string{"avx", "membw"})}
		}
		t.PreferIsol = r.Chance(0.2)
		if r.Chance(0.2) {
			t.PreferCoreType = verifrt.Pick(r, []string{"efficient", "performance"})
		}
		if r.Chance(0.3) {
			t.AllocPrio = verifrt.Pick(r, []string{"high", "normal", "low", "none"})
		}
		if r.Chance(0.2) {
			t.SpreadCores = boolp(r.Chance(0.5))
		}
		if r.Chance(0.2) {
			t.TopoBalancing = boolp(r.Chance(0.5))
		}
		b.Types = append(b.Types, t)
	}
	c.Balloons = b
	return c
}

func mutateBalloonsCfg(r *verifrt.Rand, c *CfgSpec, m *machine.Machine) {
	b := c.Balloons
	if b == nil {
		return
	}
	b.Types = append([]BalloonType(nil), b.Types...)
	switch r.Intn(10) {
	case 8:
		// a balloon type's own memory pinning switch: unset / on / off
		if len(b.Types) > 0 {
			i := r.Intn(len(b.Types))
			switch r.Intn(3) {
			case 0:
				b.Types[i].PinMemory = nil
			case 1:
				b.Types[i].PinMemory = boolp(true)
			case 2:
				b.Types[i].PinMemory = boolp(false)
			}
		} else {
			c.PinMemory = !c.PinMemory
		}
	case 9:
		// the preserve rule appears, changes or goes away
		switch r.Intn(3) {
		case 0:
			b.PreserveLabel, b.PreserveName = "", ""
		case 1:
			b.PreserveLabel = verifrt.Pick(r, []string{"a0", "a1", "a2"})
		case 2:
			b.PreserveName = verifrt.Pick(r, []string{"c0", "c1", "c2"})
		}
	case 0:
		c.PinCPU = !c.PinCPU
		b.PinCPUNil = false
	case 1:
		c.PinMemory = !c.PinMemory
		b.PinMemoryNil = false
	case 2:
		n := genBalloonsCfg(r, m)
		b.Types = n.Balloons.Types
		b.LoadClasses = n.Balloons.LoadClasses
	case 3:
		if len(b.Types) > 0 {
			i := r.Intn(len(b.Types))
			b.Types[i].MaxCpus = r.Range(0, 6)
			if b.Types[i].MaxCpus != 0 && b.Types[i].MaxCpus < b.Types[i].MinCpus {
				b.Types[i].MinCpus = b.Types[i].MaxCpus
			}
		}
	case 4:
		if len(b.Types) > 0 {
			i := r.Intn(len(b.Types))
			b.Types[i].ShareIdle = verifrt.Pick(r, []string{"", "system", "package", "numa", "core"})
		}
	case 5:
		n := genTACfg(r, m)
		c.Reserved, c.Available = n.Reserved, n.Available
	case 6:
		if b.IdleCpuClass == "" {
			b.IdleCpuClass = "idle-class"
		} else {
			b.IdleCpuClass = ""
		}
	case 7:
		if len(b.Types) > 0 {
			b.Types = b.Types[:len(b.Types)-1]
		} else {
			b.Types = append(b.Types, BalloonType{Name: "bt0", MinCpus: 1, MaxCpus: 4, Namespaces: []string{"default"}})
		}
	}
}

func applyInvalidBalloons(c *CfgSpec, m *machine.Machine) {
	b := c.Balloons
	if b == nil {
		b = &BalloonsCfg{}
		c.Balloons = b
	}
	b.Types = append([]BalloonType(nil), b.Types...)
	switch c.Invalid {
	case "duplicate-type":
		b.Types = append(b.Types, BalloonType{Name: "dup", MaxCpus: 2}, BalloonType{Name: "dup", MaxCpus: 3})
	case "ill-bounded":
		b.Types = append(b.Types, BalloonType{Name: "bad", MinCpus: 4, MaxCpus: 2})
	case "undefined-load-class":
		b.Types = append(b.Types, BalloonType{Name: "ld", MaxCpus: 2, Loads: []string{"no-such-load-class"}})
	}
}
