package main

import (
	"context"
	"fmt"
	"os"
	"path/filepath"
	"runtime/debug"
	"strings"

	nri "github.com/containerd/nri/pkg/api"
	metav1 "k8s.io/apimachinery/pkg/apis/meta/v1"
	"k8s.io/klog/v2"

	balloons "github.com/containers/nri-plugins/cmd/plugins/balloons/policy"
	topologyaware "github.com/containers/nri-plugins/cmd/plugins/topology-aware/policy"
	"github.com/containers/nri-plugins/pkg/agent"
	cfgapi "github.com/containers/nri-plugins/pkg/apis/config/v1alpha1"
	policycfg "github.com/containers/nri-plugins/pkg/apis/config/v1alpha1/resmgr/policy"
	tacfg "github.com/containers/nri-plugins/pkg/apis/config/v1alpha1/resmgr/policy/topologyaware"
	"github.com/containers/nri-plugins/pkg/kubernetes"
	pkgmetrics "github.com/containers/nri-plugins/pkg/metrics"
	"github.com/containers/nri-plugins/pkg/pidfile"
	"github.com/containers/nri-plugins/pkg/resmgr"
	"github.com/containers/nri-plugins/pkg/resmgr/cache"
	"github.com/containers/nri-plugins/pkg/resmgr/events"
	policyapi "github.com/containers/nri-plugins/pkg/resmgr/policy"

	"verifh/sim"
	"verifh/verifrt"
	"verifh/verifrt/nristub"
)

type exitPanic struct{ code int }

type world struct {
	plan                   *Plan
	prop                   string
	seed                   uint64
	res                    *sim.RunResult
	vw                     *verifrt.World
	root                   string
	rm                     resmgr.ResourceManager
	stub                   *nristub.Fake
	rt                     *runtimeModel
	cfg                    *CfgSpec // last accepted configuration
	gen                    int64
	inc                    int // incarnation (restarts)
	step                   int
	dead                   bool // a handler panicked or the process "exited"
	rejectedReconf         bool // a configuration update was rejected (and reverted) in this incarnation
	revertFailedInc        bool // ... and the revert failed too: the configuration in effect is unknown (F17)
	failedReqInc           bool // a lifecycle request failed in this incarnation (F6: its half-made changes stay pending)
	reconfiguredInc        bool // an accepted, non-identical reconfiguration happened in this incarnation
	cfgChangedSinceCoexist bool // an accepted reconfiguration changed the configuration (C11 feasibility memory is void)
	agt                    *agent.Agent
	// per-request capture
	pushed   [][]*nri.ContainerUpdate // unsolicited UpdateContainers of this request
	stubFail bool
	// history for oracles
	everActive map[string]bool
	obs        []string // per-op observation (for differential twins)
	fsw        *verifrt.FSWorld
	conc       *concState // non-nil during the concurrent phase of C15
	fixedSync  *syncArgs  // C15: arguments of the concurrently issued Synchronize
	conc0      *concState // the finished phase
	preSigs    map[string]bool
}

type syncArgs struct {
	pods []*nri.PodSandbox
	ctrs []*nri.Container
}

// syncLists is what the runtime would send in a Synchronize right now.
func (w *world) syncLists() *syncArgs {
	a := &syncArgs{}
	for _, id := range sortedKeys(w.rt.pods) {
		pod := w.rt.pods[id]
		if pod.state == "running" || pod.state == "stopped" {
			a.pods = append(a.pods, pod.spec.nri())
		}
	}
	for _, c := range w.rt.live() {
		if c.state == "creating" {
			continue
		}
		a.ctrs = append(a.ctrs, w.rt.nriCtr(c))
	}
	return a
}

func (w *world) backend() policyapi.Backend {
	return policyapi.VerifBackend(resmgr.VerifPolicy(w.rm))
}

func (w *world) cache() cache.Cache { return resmgr.VerifCache(w.rm) }

// debugLogging is the current run's Plan.Debug.
var debugLogging bool

func renderCfg(c *CfgSpec, gen int64) (cfgapi.ResmgrConfig, error) {
	rc, err := renderCfg0(c, gen)
	if err == nil && debugLogging {
		switch cfg := rc.(type) {
		case *cfgapi.TopologyAwarePolicy:
			cfg.Spec.Log.Debug = []string{"*"}
		case *cfgapi.BalloonsPolicy:
			cfg.Spec.Log.Debug = []string{"*"}
		}
	}
	return rc, err
}

func renderCfg0(c *CfgSpec, gen int64) (cfgapi.ResmgrConfig, error) {
	meta := metav1.ObjectMeta{Name: "default", Generation: gen, UID: "cfg-uid"}
	switch c.Policy {
	case "topology-aware":
		cfg := &cfgapi.TopologyAwarePolicy{ObjectMeta: meta}
		pc := &cfg.Spec.Config
		pc.PinCPU, pc.PinMemory = c.PinCPU, c.PinMemory
		pc.PreferIsolated, pc.PreferShared = c.PreferIsolated, c.PreferShared
		pc.ColocatePods, pc.ColocateNamespaces = c.ColocatePods, c.ColocateNS
		pc.ReservedPoolNamespaces = c.ResNS
		pc.DefaultCPUPriority = tacfg.CPUPriority(c.DefaultPrio)
		if c.Available != "" {
			pc.AvailableResources = policycfg.Constraints{policycfg.CPU: policycfg.Amount("cpuset:" + c.Available)}
		}
		if c.Reserved != "" {
			pc.ReservedResources = policycfg.Constraints{policycfg.CPU: policycfg.Amount(c.Reserved)}
		}
		return cfg, nil
	case "balloons":
		return renderBalloonsCfg(c, meta)
	}
	return nil, fmt.Errorf("unknown policy %q", c.Policy)
}

func newBackend(policy string) policyapi.Backend {
	if policy == "balloons" {
		return balloons.New()
	}
	return topologyaware.New()
}

// boot starts a new plugin incarnation on the state directory.
// bootedThisRun lists every resource manager instance of the current run
// (restarts, twins): their event loops are stopped when the run ends, or each
// would keep its whole world alive for the life of the worker process.
var bootedThisRun []resmgr.ResourceManager

func stopBooted() {
	for _, rm := range bootedThisRun {
		resmgr.VerifStopEvents(rm)
	}
	bootedThisRun = nil
}

func (w *world) boot(cfg *CfgSpec) error {
	// a new incarnation is a new process: package-level state starts afresh
	topologyaware.VerifResetGlobals()
	pkgmetrics.VerifResetDefaultRegistry()
	state := filepath.Join(w.root, "state")
	hostRoot := filepath.Join(w.root, "host")
	resmgr.VerifSetDirs(state, hostRoot)
	pidfile.SetPath(filepath.Join(w.root, "pid"))
	os.Setenv("NODE_NAME", "node0")
	agt, err := agent.New(agentConfigInterface(w.plan.Policy), agent.WithConfigFile(filepath.Join(w.root, "no-such-config")))
	if err != nil {
		return fmt.Errorf("agent: %w", err)
	}
	w.agt = agt
	rm, err := resmgr.NewResourceManager(newBackend(w.plan.Policy), agt)
	if err != nil {
		return fmt.Errorf("NewResourceManager: %w", err)
	}
	w.rm = rm
	bootedThisRun = append(bootedThisRun, rm)
	w.gen++
	rc, err := renderCfg(cfg, w.gen)
	if err != nil {
		return err
	}
	if _, err := resmgr.VerifUpdateConfig(rm, rc); err != nil {
		return fmt.Errorf("initial configuration: %w", err)
	}
	w.cfg = cfg
	w.stub = nristub.Last
	w.stub.OnUpdate = func(u []*nri.ContainerUpdate) ([]*nri.ContainerUpdate, error) {
		if w.stubFail {
			w.res.Fault("stub.update-error")
			for _, x := range u {
				if c, ok := w.rt.ctrs[x.ContainerId]; ok {
					c.t.staleUntilNextUpdate = true
					c.lostPush = true
				}
			}
			return nil, fmt.Errorf("injected UpdateContainers failure")
		}
		if w.conc != nil {
			// concurrent phase (C15): kept with the task that sent it and
			// applied with its reply, in serialization order
			// Pushing to the runtime is an access like one to the cache or the
			// policy: outside the lock it can overtake, or be overtaken by,
			// what another handler tells the runtime.
			verifrt.Touch("runtime", "stub.UpdateContainers")
			task := verifrt.CurrentTask()
			w.conc.pushedBy[task] = append(w.conc.pushedBy[task], u)
			return nil, nil
		}
		w.pushed = append(w.pushed, u)
		return nil, nil
	}
	w.inc++
	return nil
}

func agentConfigInterface(policy string) agent.ConfigInterface {
	if policy == "balloons" {
		return agent.BalloonsConfigInterface()
	}
	return agent.TopologyAwareConfigInterface()
}

// call runs one handler under recover. A panic or a process exit through the
// logger's Fatal kills the incarnation.
func (w *world) call(name string, f func() error) (err error, crashed bool) {
	if w.conc != nil {
		task := verifrt.CurrentTask()
		w.conc.inCall[task]++
		defer func() {
			if w.conc != nil {
				w.conc.inCall[task]--
			}
		}()
	}
	defer func() {
		if r := recover(); r != nil {
			if verifrt.IsCrash(r) {
				panic(r) // simulated process kill: handled by the op loop
			}
			w.dead = true
			crashed = true
			what := fmt.Sprintf("panic: %v", r)
			if ep, ok := r.(exitPanic); ok {
				what = fmt.Sprintf("process exit(%d) through the logger's Fatal", ep.code)
			}
			site := panicSite(debug.Stack())
			prop := "C14"
			if w.prop == "C15" {
				prop = "C15" // a handler that panics under concurrent delivery
			}
			w.res.Violate(prop, "handler-returns", prop+" "+name+" "+what0(what)+" at "+site, w.step,
				"%s: %s\n%s", name, what, trimStack(debug.Stack()))
		}
	}()
	return f(), false
}

func what0(s string) string {
	if strings.HasPrefix(s, "panic: runtime error: invalid memory address") {
		return "nil-deref"
	}
	if strings.HasPrefix(s, "process exit") {
		return "fatal-exit"
	}
	if i := strings.Index(s, "\n"); i > 0 {
		s = s[:i]
	}
	if len(s) > 60 {
		s = s[:60]
	}
	return s
}

// panicSite extracts the first nri-plugins frame below the panic.
func panicSite(stack []byte) string {
	lines := strings.Split(string(stack), "\n")
	seenPanic := false
	for i, l := range lines {
		if strings.HasPrefix(l, "panic(") {
			seenPanic = true
			continue
		}
		if seenPanic && strings.Contains(l, "github.com/containers/nri-plugins/") && i+1 < len(lines) {
			fn := l
			if k := strings.LastIndex(fn, "("); k > 0 {
				fn = fn[:k] // strip the argument list, keep (*type).method
			}
			fn = strings.TrimPrefix(fn, "github.com/containers/nri-plugins/")
			return fn
		}
	}
	return "unknown"
}

func trimStack(stack []byte) string {
	lines := strings.Split(string(stack), "\n")
	var out []string
	seenPanic := false
	for _, l := range lines {
		if strings.HasPrefix(l, "panic(") {
			seenPanic = true
		}
		if seenPanic {
			out = append(out, l)
		}
		if len(out) > 14 {
			break
		}
	}
	return strings.Join(out, "\n")
}

type reply struct {
	op           *Op
	kind         string
	target       string // container the request is about
	adjust       *nri.ContainerAdjustment
	updates      []*nri.ContainerUpdate
	pushed       [][]*nri.ContainerUpdate
	err          error
	crashed      bool
	skipped      bool
	prev         map[string]told // told view before this reply was applied
	revertFailed bool            // rejected reconfigure whose revert to the old configuration failed as well
}

// applyReply folds the plugin's answer into the told view.
func (w *world) applyReply(r *reply) {
	r.prev = map[string]told{}
	for id, c := range w.rt.ctrs {
		r.prev[id] = c.t
	}
	if r.adjust != nil && r.target != "" {
		if c, ok := w.rt.ctrs[r.target]; ok && r.adjust.Linux != nil {
			c.noteTold()
			c.t.apply(r.adjust.Linux.Resources)
			c.rv.apply(r.adjust.Linux.Resources)
		}
	}
	if r.err != nil && r.kind != "reconfigure" {
		w.failedReqInc = true
	}
	apply := func(us []*nri.ContainerUpdate) {
		for _, u := range us {
			if c, ok := w.rt.ctrs[u.ContainerId]; ok && u.Linux != nil {
				c.noteTold()
				c.t.apply(u.Linux.Resources)
				c.rv.apply(u.Linux.Resources)
				c.t.staleUntilNextUpdate = false
			}
		}
	}
	apply(r.updates)
	for _, p := range r.pushed {
		apply(p)
	}
}

var ctx = context.Background()

func (w *world) initTold(c *rCtr) {
	r := w.rt.linuxResources(c.pod.spec, c.spec)
	c.init = told{}
	c.init.apply(r)
	c.t = c.init
	c.rv = c.init
}

// doOpMaybeCrashing: a lifecycle request during which the plugin process is
// killed at one of its file-system operations (only what had reached the state
// directory survives). The runtime carries on without the plugin's answer; the
// plugin is then restarted on its state directory and the runtime synchronizes.
func (w *world) doOpMaybeCrashing(op *Op) *reply {
	if op.Crash <= 0 || w.dead || w.fsw == nil {
		return w.doOp(op)
	}
	switch op.Kind {
	case "create", "start", "update", "stop", "remove", "run-pod", "stop-pod", "remove-pod":
	default:
		return w.doOp(op)
	}
	fs := w.fsw
	at := fs.Ops() + op.Crash
	action := "crash-before"
	if op.CrashAfter {
		action = "crash-after"
	}
	fs.Faults[at] = verifrt.FSFault{At: at, Action: action}
	var rep *reply
	crashed := false
	func() {
		defer func() {
			if r := recover(); r != nil {
				if !verifrt.IsCrash(r) {
					panic(r)
				}
				crashed = true
			}
		}()
		rep = w.doOp(op)
	}()
	delete(fs.Faults, at)
	if !crashed {
		return rep // the request made fewer fs operations than that
	}
	w.res.Fault("crash.mid-request/" + op.Kind)
	// what the runtime does when the plugin dies under a request: it goes on
	switch op.Kind {
	case "create":
		if c, ok := w.rt.ctrs[op.Ctr.ID]; ok && c.state == "creating" {
			c.state = "created" // created without any adjustment
			c.lostGrant = ""
		}
	case "update":
		if c, ok := w.rt.ctrs[op.ID]; ok {
			c.reqUnsure = true // kubelet's new values may or may not have reached the cache
		}
	}
	w.pushed = nil
	// restart on what is on disk
	resmgr.VerifStopEvents(w.rm)
	w.rejectedReconf, w.reconfiguredInc, w.revertFailedInc, w.failedReqInc = false, false, false, false
	for _, c := range w.rt.ctrs {
		c.restarts++
	}
	w.fsw = w.vw.NewFS(filepath.Join(w.root, "state"))
	rep = &reply{op: op, kind: "restart"}
	if err := w.bootRecover(w.cfg); err != nil {
		rep.err = err
		if len(w.res.Violations) == 0 {
			w.dead = true
			w.res.Violate("C11", "restart-after-crash", "C11 restart-after-crash refused "+op.Kind, w.step, "after the plugin was killed at fs operation %d (%s) of %s it does not start on its state directory any more: %v", op.Crash, action, op.Kind, err)
		}
		return rep
	}
	rep.err, rep.crashed = w.synchronize(rep)
	if !rep.crashed {
		w.applyReply(rep)
	}
	return rep
}

// doOp delivers one operation to the plugin and returns what came back.
func (w *world) doOp(op *Op) *reply {
	rep := &reply{op: op, kind: op.Kind}
	if w.dead || op.Skip {
		rep.skipped = true
		return rep
	}
	p := resmgr.VerifPlugin(w.rm)
	if w.conc == nil {
		w.pushed = nil
		sim.LogReset()
		w.stubFail = op.Fault == "stub.update-error"
	}
	switch op.Kind {
	case "run-pod":
		pod := &rPod{spec: op.Pod, state: "running"}
		w.rt.pods[op.Pod.ID] = pod
		if op.Fault == "nri.drop" {
			pod.dropped = true
			w.res.Fault("nri.drop")
			rep.skipped = true
			return rep
		}
		rep.err, rep.crashed = w.call("RunPodSandbox", func() error { return p.RunPodSandbox(ctx, op.Pod.nri()) })
	case "create":
		pod, ok := w.rt.pods[op.Ctr.Pod]
		if !ok || pod.state != "running" {
			rep.skipped = true
			return rep
		}
		if old, exists := w.rt.ctrs[op.Ctr.ID]; exists && old.state != "removed" && old.state != "failed" && op.Fault != "nri.dup" {
			rep.skipped = true
			return rep
		}
		// the kubelet never runs two instances of one container of a pod at once
		for _, o := range w.rt.active() {
			if o.pod == pod && o.spec.Name == op.Ctr.Name && op.Fault == "" {
				rep.skipped = true
				return rep
			}
		}
		c := &rCtr{spec: op.Ctr, cur: op.Ctr, pod: pod, state: "creating", known: true}
		w.initTold(c)
		w.rt.ctrs[op.Ctr.ID] = c
		w.rt.order = append(w.rt.order, op.Ctr.ID)
		rep.target = op.Ctr.ID
		// an older live instance with the same namespace/pod/container name (its
		// pod was re-created) is retired by the plugin at the start of the
		// request, whatever becomes of the request; the runtime is about to stop
		// it anyway
		type retired struct {
			o        *rCtr
			state    string
			stopSeen bool
		}
		var olds []retired
		for _, o := range w.rt.ctrs {
			if o != c && (o.state == "created" || o.state == "running") && o.spec.Name == c.spec.Name &&
				o.pod.spec.Name == pod.spec.Name && o.pod.spec.Namespace == pod.spec.Namespace {
				olds = append(olds, retired{o, o.state, o.stopSeen})
				o.state, o.stopSeen = "stopped", true
				w.res.Probe("older-instance-with-the-same-name-retired")
			}
		}
		rep.err, rep.crashed = w.call("CreateContainer", func() error {
			var err error
			rep.adjust, rep.updates, err = p.CreateContainer(ctx, pod.spec.nri(), w.rt.nriCtr(c))
			return err
		})
		if rep.err != nil && strings.Contains(rep.err.Error(), "failed to cache container") {
			// refused before the plugin got to retiring anything
			for _, r := range olds {
				r.o.state, r.o.stopSeen = r.state, r.stopSeen
			}
		}
		if rep.crashed {
			return rep
		}
		if rep.err != nil {
			// the runtime fails the creation and tells plugins so
			c.state = "failed"
			w.res.Fault("alloc.fail")
			w.call("StopContainer", func() error {
				us, err := p.StopContainer(ctx, pod.spec.nri(), w.rt.nriCtr(c))
				rep.updates = append(rep.updates, us...)
				return err
			})
			w.call("RemoveContainer", func() error { return p.RemoveContainer(ctx, pod.spec.nri(), w.rt.nriCtr(c)) })
			c.stopSeen = true
		} else {
			c.state = "created"
			c.resAtAlloc = w.reservedClass(c)
			c.cfgAtAlloc = w.cfg
		}
	case "start":
		c, ok := w.rt.ctrs[op.ID]
		if !ok || c.state != "created" {
			rep.skipped = true
			return rep
		}
		c.state = "running"
		rep.target = op.ID
		rep.err, rep.crashed = w.call("StartContainer", func() error { return p.StartContainer(ctx, c.pod.spec.nri(), w.rt.nriCtr(c)) })
	case "update":
		c, ok := w.rt.ctrs[op.ID]
		if !ok || (c.state != "created" && c.state != "running") {
			rep.skipped = true
			return rep
		}
		ns := *c.cur
		ns.MilliCPU = op.MCPU
		if c.pod.spec.QoS != "Guaranteed" && ns.LimitCPU != 0 && ns.LimitCPU < ns.MilliCPU {
			ns.LimitCPU = ns.MilliCPU
		}
		if op.Mem > 0 {
			ns.MemLimit = op.Mem
			if c.pod.spec.QoS == "Guaranteed" {
				ns.MemReq = op.Mem
			}
		}
		res := w.rt.linuxResources(c.pod.spec, &ns)
		rep.target = op.ID
		rep.err, rep.crashed = w.call("UpdateContainer", func() error {
			var err error
			rep.updates, err = p.UpdateContainer(ctx, c.pod.spec.nri(), w.rt.nriCtr(c), res)
			return err
		})
		identical := ns.MilliCPU == c.cur.MilliCPU && ns.MemLimit == c.cur.MemLimit
		if rep.err == nil && !rep.crashed && identical {
			// identical resources are short-circuited: nothing is re-evaluated
		} else if rep.err == nil && !rep.crashed {
			// the runtime applies the kubelet's new values itself; what the
			// plugin returns is laid over them afterwards (applyReply)
			c.rv.apply(res)
			c.cur = &ns
			c.updated = true
			if c.lostGrant == "" || newOracles(w).allocated(c.spec.ID) {
				c.lostGrant = ""
				c.reqUnsure = false
			}
			// else: an earlier failed update left this request in the cache
			// (F6), the plugin takes the repeated update for "no change" and
			// the container stays without its grant (F8)
			c.resAtAlloc = w.reservedClass(c)
			c.cfgAtAlloc = w.cfg
		} else if rep.err != nil {
			w.res.Fault("alloc.fail")
			c.lostGrant = "failed-update"
			c.reqUnsure = true
		}
	case "stop":
		c, ok := w.rt.ctrs[op.ID]
		if !ok || (c.state != "created" && c.state != "running") {
			rep.skipped = true
			return rep
		}
		c.state = "stopped"
		c.stopSeen = true
		rep.target = op.ID
		rep.err, rep.crashed = w.call("StopContainer", func() error {
			var err error
			rep.updates, err = p.StopContainer(ctx, c.pod.spec.nri(), w.rt.nriCtr(c))
			return err
		})
	case "remove":
		c, ok := w.rt.ctrs[op.ID]
		// a container that was created but never started is removed without
		// a StopContainer event (the runtime only stops what runs)
		if !ok || (c.state != "stopped" && !(c.state == "created" && op.Ev == "never-started")) {
			rep.skipped = true
			return rep
		}
		if c.state == "created" {
			w.res.Probe("never-started-container-removed-without-stop")
		}
		c.state = "removed"
		rep.target = op.ID
		rep.err, rep.crashed = w.call("RemoveContainer", func() error { return p.RemoveContainer(ctx, c.pod.spec.nri(), w.rt.nriCtr(c)) })
	case "stop-pod":
		pod, ok := w.rt.pods[op.ID]
		if !ok || pod.state != "running" || pod.dropped {
			rep.skipped = true
			return rep
		}
		// the runtime stops the pod's containers first
		for _, c := range w.rt.live() {
			if c.pod == pod && (c.state == "created" || c.state == "running") {
				rep.skipped = true
				return rep
			}
		}
		pod.state = "stopped"
		rep.err, rep.crashed = w.call("StopPodSandbox", func() error { return p.StopPodSandbox(ctx, pod.spec.nri()) })
	case "remove-pod":
		pod, ok := w.rt.pods[op.ID]
		if !ok || pod.state != "stopped" || pod.dropped {
			rep.skipped = true
			return rep
		}
		for _, c := range w.rt.live() {
			if c.pod == pod {
				rep.skipped = true
				return rep
			}
		}
		pod.state = "removed"
		rep.err, rep.crashed = w.call("RemovePodSandbox", func() error { return p.RemovePodSandbox(ctx, pod.spec.nri()) })
	case "reconfigure":
		op.identical = sameCfg(op.Cfg, w.cfg)
		w.gen++
		rc, err := renderCfg(op.Cfg, w.gen)
		if err != nil {
			rep.skipped = true
			return rep
		}
		rep.err, rep.crashed = w.call("reconfigure", func() error {
			_, err := resmgr.VerifUpdateConfig(w.rm, rc)
			return err
		})
		if rep.err == nil && !rep.crashed {
			if !op.identical {
				w.cfgChangedSinceCoexist = true
				w.reconfiguredInc = true
			}
			w.cfg = op.Cfg
			w.res.Probe("reconfigure-accepted")
		} else if rep.err != nil {
			w.res.Fault("cfg.rejected/" + op.Cfg.Invalid)
			w.rejectedReconf = true
			rep.revertFailed = sim.LogSeen(markRevertFailed)
			if rep.revertFailed {
				w.revertFailedInc = true
				w.res.Probe("revert-of-rejected-configuration-failed")
			}
		}
	case "sync":
		rep.err, rep.crashed = w.synchronize(rep)
	case "coldstart-done":
		// the cold-start timer of a started container has expired
		c, ok := w.rt.ctrs[op.ID]
		if !ok || c.state != "running" || w.plan.Policy != "topology-aware" {
			rep.skipped = true
			return rep
		}
		// only a container that is in its cold-start period has a timer
		inColdStart := false
		if sn := topologyaware.VerifSnapshot(w.backend()); sn != nil {
			for _, g := range sn.Grants {
				if g.Container == op.ID && g.ColdStart > 0 {
					inColdStart = true
				}
			}
		}
		if !inColdStart {
			rep.skipped = true
			return rep
		}
		w.res.Probe("cold-start-timer-expired")
		rep.target = op.ID
		rep.err, rep.crashed = w.call("cold-start-done", func() error {
			changed, err := resmgr.VerifDeliverPolicyEvent(w.rm, &events.Policy{Type: "cold-start-done", Source: "topology-aware", Data: op.ID})
			if changed {
				w.res.Probe("cold-start-completed-with-changes")
			}
			return err
		})
	case "restart":
		// clean restart: the old incarnation is discarded, a new one starts on
		// the same state directory, then the runtime synchronizes
		for _, id := range op.Gone {
			if c, ok := w.rt.ctrs[id]; ok && c.state != "removed" {
				c.state = "removed"
			}
		}
		for _, cs := range op.DownAdd {
			pod, ok := w.rt.pods[cs.Pod]
			if _, exists := w.rt.ctrs[cs.ID]; exists || !ok || pod.state != "running" {
				continue
			}
			taken := false
			for _, o := range w.rt.active() {
				if o.pod == pod && o.spec.Name == cs.Name {
					taken = true
				}
			}
			if taken {
				continue
			}
			// created by the runtime alone: nothing adjusted it
			c := &rCtr{spec: cs, cur: cs, pod: pod, state: "created"}
			w.initTold(c)
			w.rt.ctrs[cs.ID] = c
			w.rt.order = append(w.rt.order, cs.ID)
			w.res.Fault("restart.container-added-while-down")
		}
		for _, id := range op.DownStart {
			if c, ok := w.rt.ctrs[id]; ok && c.state == "created" {
				c.state = "running"
				w.res.Fault("restart.container-started-while-down")
			}
		}
		for _, id := range op.DownStop {
			if c, ok := w.rt.ctrs[id]; ok && (c.state == "created" || c.state == "running") {
				c.state = "stopped" // the plugin has seen no StopContainer for it
				w.res.Fault("restart.container-exited-while-down")
			}
		}
		resmgr.VerifStopEvents(w.rm)
		w.res.Fault("restart.clean")
		w.rejectedReconf = false
		w.reconfiguredInc = false
		w.revertFailedInc = false
		w.failedReqInc = false
		for _, c := range w.rt.ctrs {
			c.restarts++
		}
		if err := w.bootRecover(w.cfg); err != nil {
			rep.err = err
			return rep
		}
		rep.err, rep.crashed = w.synchronize(rep)
	case "x":
		// out-of-protocol event (C14): duplicated, reordered, or naming a pod
		// or container the plugin has never seen or has forgotten. The
		// runtime model is not changed by it.
		w.res.Fault("nri." + op.Fault)
		var pod *nri.PodSandbox
		var ctr *nri.Container
		if c, ok := w.rt.ctrs[op.ID]; ok {
			pod, ctr = c.pod.spec.nri(), w.rt.nriCtr(c)
		} else if pd, ok := w.rt.pods[op.ID]; ok {
			pod = pd.spec.nri()
		}
		if pod == nil {
			pod = (&PodSpec{ID: "ghost-pod-" + op.ID, Name: "ghost", Namespace: "default", QoS: "Burstable"}).nri()
			// half of the time the ghost container claims an existing pod
			if op.Ctr != nil && op.Ctr.Pod != "" {
				if pd, ok := w.rt.pods[op.Ctr.Pod]; ok {
					pod = pd.spec.nri()
				}
			}
		}
		if ctr == nil {
			ctr = &nri.Container{Id: op.ID, PodSandboxId: pod.Id, Name: "ghost", State: nri.ContainerState_CONTAINER_RUNNING}
			if op.Ctr != nil && !op.Ctr.NoLinux {
				ctr.Linux = &nri.LinuxContainer{}
				if !op.Ctr.NoResources {
					ctr.Linux.Resources = w.rt.linuxResources(&PodSpec{QoS: "Burstable"}, op.Ctr)
				}
			}
		}
		rep.target = ""
		switch op.Ev {
		case "RunPodSandbox":
			rep.err, rep.crashed = w.call(op.Ev, func() error { return p.RunPodSandbox(ctx, pod) })
		case "StopPodSandbox":
			rep.err, rep.crashed = w.call(op.Ev, func() error { return p.StopPodSandbox(ctx, pod) })
		case "RemovePodSandbox":
			rep.err, rep.crashed = w.call(op.Ev, func() error { return p.RemovePodSandbox(ctx, pod) })
		case "CreateContainer":
			rep.err, rep.crashed = w.call(op.Ev, func() error { _, _, err := p.CreateContainer(ctx, pod, ctr); return err })
		case "StartContainer":
			rep.err, rep.crashed = w.call(op.Ev, func() error { return p.StartContainer(ctx, pod, ctr) })
		case "UpdateContainer":
			var lr *nri.LinuxResources
			if op.Ctr != nil && !op.Ctr.NoResources {
				lr = w.rt.linuxResources(&PodSpec{QoS: "Burstable"}, op.Ctr)
			}
			rep.err, rep.crashed = w.call(op.Ev, func() error { _, err := p.UpdateContainer(ctx, pod, ctr, lr); return err })
		case "StopContainer":
			rep.err, rep.crashed = w.call(op.Ev, func() error { _, err := p.StopContainer(ctx, pod, ctr); return err })
		case "RemoveContainer":
			rep.err, rep.crashed = w.call(op.Ev, func() error { return p.RemoveContainer(ctx, pod, ctr) })
		default:
			rep.skipped = true
		}
		w.pushed = nil
		return rep
	default:
		rep.skipped = true
		return rep
	}
	if w.conc != nil {
		return rep // applied after the phase, in serialization order
	}
	rep.pushed = w.pushed
	w.pushed = nil
	w.stubFail = false
	if !rep.crashed {
		w.applyReply(rep)
	}
	return rep
}

func (w *world) bootRecover(cfg *CfgSpec) (err error) {
	defer func() {
		if r := recover(); r != nil {
			if verifrt.IsCrash(r) {
				panic(r)
			}
			w.dead = true
			err = fmt.Errorf("panic during start-up: %v", r)
			w.res.Violate("C14", "handler-returns", "C14 startup "+what0(fmt.Sprintf("panic: %v", r))+" at "+panicSite(debug.Stack()), w.step, "start-up: %v\n%s", r, trimStack(debug.Stack()))
		}
	}()
	return w.boot(cfg)
}

// synchronize sends the runtime's current lists, as NRI does after (re)connect.
func (w *world) synchronize(rep *reply) (error, bool) {
	p := resmgr.VerifPlugin(w.rm)
	var pods []*nri.PodSandbox
	var ctrs []*nri.Container
	if w.fixedSync != nil {
		// C15: the request's arguments were fixed when it was issued
		pods, ctrs = w.fixedSync.pods, w.fixedSync.ctrs
		return w.call("Synchronize", func() error {
			var err error
			rep.updates, err = p.Synchronize(ctx, pods, ctrs)
			return err
		})
	}
	for _, id := range sortedKeys(w.rt.pods) {
		pod := w.rt.pods[id]
		if pod.state == "running" || pod.state == "stopped" {
			pods = append(pods, pod.spec.nri())
		}
	}
	for _, c := range w.rt.live() {
		if c.state == "creating" {
			continue
		}
		ctrs = append(ctrs, w.rt.nriCtr(c))
		c.known = true
		c.lostGrant = ""
		// reqUnsure survives a restart: the plugin persists the resource
		// update of the failed UpdateContainer with the container
		c.resAtAlloc = w.reservedClass(c)
		c.cfgAtAlloc = w.cfg
		if c.state == "stopped" {
			c.stopSeen = true
		}
	}
	for _, pod := range w.rt.pods {
		if pod.state == "running" || pod.state == "stopped" {
			pod.dropped = false // the plugin learns about it now
		}
	}
	return w.call("Synchronize", func() error {
		var err error
		rep.updates, err = p.Synchronize(ctx, pods, ctrs)
		return err
	})
}

const markRevertFailed = "failed to revert configuration"

// topology-aware: reinstating the grants verbatim failed, everything was
// re-allocated instead (F24)
const markReinstateFailed = "failed to reinstate grants verbatim"

// balloons: Sync (restart, Synchronize, Reconfigure) only logs a container it
// could not re-admit
const markReadmitFailed = "allocating resources for Sync produced an error"

func setupProcess() {
	klog.OsExit = func(code int) { panic(exitPanic{code}) }
	sim.LogMarkers(markRevertFailed, markReadmitFailed, markReinstateFailed)
}

func (w *world) setMemCapacity() {
	var total int64
	for _, n := range w.plan.Machine.Nodes {
		total += int64(n.MemKB) * 1024
	}
	if total == 0 {
		total = 1 << 30
	}
	w.rt.memCapacity = total
	kubernetes.SetMemoryCapacity(total)
}
