package main

import (
	"fmt"
	"sort"
	"strings"

	topologyaware "github.com/containers/nri-plugins/cmd/plugins/topology-aware/policy"
	policyapi "github.com/containers/nri-plugins/pkg/resmgr/policy"
)

// ---------------------------------------------------------------------------
// C03: pool capacity, ledger, eligibility, shares

// expectedExclusive is the reference eligibility model, written from
// docs/resource-policy/policy/topology-aware.md ("Container CPU Allocation
// Preferences"). It returns the set of exclusive-CPU counts the documentation
// allows for the container (more than one value where the text is ambiguous).
func (o *oracles) expectedExclusive(y *rCtr) (allowed []int, group string) {
	w := o.w
	pod := y.pod.spec
	mcpu := y.cur.MilliCPU
	// grants are decided when the container is (re)allocated: judge them by
	// the configuration in force then (a later reconfiguration reinstates
	// them verbatim; whether that is right is C13's subject)
	cfg := y.cfgAtAlloc
	if cfg == nil {
		cfg = w.cfg
	}
	if y.resAtAlloc {
		return []int{0}, "reserved-class"
	}
	if pod.QoS != "Guaranteed" {
		return []int{0}, "low-priority"
	}
	if mcpu < 1000 {
		return []int{0}, "sub-core"
	}
	full := mcpu / 1000
	shAnn, shPresent := annTrue(pod, y.spec.Name, "prefer-shared-cpus."+rns)
	cfgShared := cfg.PreferShared != nil && *cfg.PreferShared
	if mcpu < 2000 {
		// mixed: by default eligible; not if preferSharedCPUs or annotated to opt out
		switch {
		case shPresent && shAnn:
			return []int{0}, "mixed opted-out"
		case shPresent && !shAnn:
			if cfgShared {
				return []int{0, full}, "mixed annotated-in vs config" // precedence not spelled out
			}
			return []int{full}, "mixed opted-in"
		case cfgShared:
			return []int{0}, "mixed preferSharedCPUs"
		}
		return []int{full}, "mixed"
	}
	if mcpu%1000 != 0 {
		// multi-core fractional: by default not eligible; eligible if annotated to opt in
		if shPresent && !shAnn {
			return []int{full}, "multi-core fractional opted-in"
		}
		return []int{0}, "multi-core fractional"
	}
	// multi-core, whole CPUs: by default eligible; not if annotated to opt out
	switch {
	case shPresent && shAnn:
		return []int{0}, "multi-core opted-out"
	case shPresent && !shAnn:
		return []int{full}, "multi-core opted-in"
	case cfgShared:
		return []int{0, full}, "multi-core vs preferSharedCPUs" // the text names the option for the mixed group only
	}
	return []int{full}, "multi-core"
}

func (o *oracles) checkC03(rep0 reporter) {
	w := o.w
	rep := o.withCause(rep0)
	o.victim = nil
	sn := o.taSnap()
	if sn == nil {
		return
	}
	res := w.res
	pools := map[string]*topologyaware.VerifPool{}
	for i := range sn.Pools {
		pools[sn.Pools[i].Name] = &sn.Pools[i]
	}
	grants := map[string]*topologyaware.VerifGrant{}
	ownShared, ownReserved := map[string]int{}, map[string]int{}
	for i := range sn.Grants {
		g := &sn.Grants[i]
		grants[g.Container] = g
		ownShared[g.Pool] += g.SharedPortion
		ownReserved[g.Pool] += g.ReservedPortion
	}
	var subtree func(name string, own map[string]int) int
	subtree = func(name string, own map[string]int) int {
		t := own[name]
		for _, c := range pools[name].Children {
			t += subtree(c, own)
		}
		return t
	}
	parent := map[string]string{}
	for _, p := range sn.Pools {
		parent[p.Name] = p.Parent
	}
	// cause classifier: an oversubscription that disappears when the CPUs
	// sliced off by exclusive grants of ancestor pools are counted back
	slicedCause := func(p *topologyaware.VerifPool, promised int) string {
		back := o.slicedByAncestors(sn, p, parent)
		if len(back) > 0 && promised <= 1000*(len(parseSet(p.FreeSharable))+len(back)) {
			return " sliced-by-ancestor"
		}
		return ""
	}
	negZone := map[string]string{}
	for i := range sn.Pools {
		p := sn.Pools[i]
		res.Check("ledger")
		if p.GrantedShared != ownShared[p.Name] || p.GrantedShared < 0 {
			rep("ledger", "ledger shared", "pool %s records %d mCPU of granted shared capacity but its grants add up to %d", p.Name, p.GrantedShared, ownShared[p.Name])
		}
		if p.GrantedReserved != ownReserved[p.Name] || p.GrantedReserved < 0 {
			rep("ledger", "ledger reserved", "pool %s records %d mCPU of granted reserved capacity but its grants add up to %d", p.Name, p.GrantedReserved, ownReserved[p.Name])
		}
		res.Check("capacity")
		sh := subtree(p.Name, ownShared)
		capSh := 1000 * len(parseSet(p.FreeSharable))
		if sh > capSh {
			negZone[p.Name] = slicedCause(&p, sh)
			rep("capacity", "capacity shared"+slicedCause(&p, sh), "pool %s: %d mCPU of shared capacity is promised in its subtree but only %d CPUs (%s) remain in its shared set", p.Name, sh, len(parseSet(p.FreeSharable)), p.FreeSharable)
		}
		if sh > 0 && capSh-sh < 1000 {
			res.Probe("pool-filled-to-less-than-one-cpu")
		}
		rs := subtree(p.Name, ownReserved)
		if capRs := 1000 * len(parseSet(p.FreeReserved)); rs > capRs {
			rep("capacity", "capacity reserved", "pool %s: %d mCPU of reserved capacity is promised in its subtree but only %d reserved CPUs (%s) remain", p.Name, rs, len(parseSet(p.FreeReserved)), p.FreeReserved)
		}
	}
	// zones: cpu Available never negative
	for _, z := range w.zones() {
		for _, r := range z.Resources {
			if r.Name == policyapi.CPUResource {
				res.Check("zone-available-nonnegative")
				if r.Available.Sign() < 0 {
					cause, ok := negZone[z.Name]
					if !ok {
						// the zone's figure is capped by its ancestors and
						// descendants: same cause if any pool of this snapshot is
						// oversubscribed through ancestor slicing only
						for _, c := range negZone {
							if c != "" {
								cause = c
							}
						}
					}
					rep("zone-available-nonnegative", "zone-available-negative"+cause, "topology zone %s advertises negative available CPU %s", z.Name, r.Available.String())
				}
			}
		}
	}
	cch := w.cache()
	isolatedAll := setOf(w.plan.Machine.IsolatedCPUs())
	for _, y := range w.rt.active() {
		g, ok := grants[y.spec.ID]
		if !ok {
			continue
		}
		o.victim = y
		c, inCache := cch.LookupContainer(y.spec.ID)
		preserved := w.cpuPreserved(y)
		// every CPU-pinned container has a non-empty allowed CPU set
		if w.cfg.PinCPU && !preserved && inCache {
			res.Check("nonempty-cpuset")
			if c.GetCpusetCpus() == "" {
				cause := ""
				if o.poolEmptiedByAncestorSlice(sn, g.Pool) {
					cause = " sliced-by-ancestor"
				} else if len(parseSet(pools[sn.Root].Sharable)) == 0 {
					// the configuration reserves/isolates every available CPU:
					// there is no shared CPU to give; not judged
					res.Probe("configuration-without-sharable-cpus")
					continue
				} else if len(parseSet(pools[g.Pool].Sharable)) == 0 {
					cause = " pool-without-sharable-cpus"
				} else if len(parseSet(pools[g.Pool].FreeSharable)) == 0 && y.cur.MilliCPU == 0 {
					// F10: every sharable CPU of the pool is exclusively granted
					// (by grants of this pool or below); a zero-request container
					// is still placed here
					cause = " pool-shared-cpus-all-exclusively-granted"
				}
				rep("nonempty-cpuset", "nonempty-cpuset"+cause, "container %s (%s, %d mCPU, pool %s) is CPU-pinned but its allowed CPU set is empty (shared set of its pool: %q)", y.spec.ID, y.pod.spec.QoS, y.cur.MilliCPU, g.Pool, pools[g.Pool].FreeSharable)
			}
		}
		if preserved {
			continue
		}
		if y.reqUnsure {
			continue
		}
		// eligibility
		allowed, group := o.expectedExclusive(y)
		if y.cfgAtAlloc != nil && y.cfgAtAlloc != w.cfg {
			// reconfigured since it was allocated: the grant may have been
			// reinstated verbatim (old rules) or re-allocated (new rules)
			saved := y.cfgAtAlloc
			y.cfgAtAlloc = w.cfg
			a2, _ := o.expectedExclusive(y)
			y.cfgAtAlloc = saved
			allowed = append(allowed, a2...)
		}
		excl := parseSet(g.Exclusive)
		res.Check("eligibility")
		okc := false
		for _, a := range allowed {
			if a == len(excl) {
				okc = true
			}
		}
		if !okc {
			rep("eligibility", "eligibility "+group, "container %s (%s, request %d mCPU, group %s) holds %d exclusive CPUs (%s), the documented rules give %v", y.spec.ID, y.pod.spec.QoS, y.cur.MilliCPU, group, len(excl), g.Exclusive, allowed)
		}
		if len(excl) > 0 {
			res.Probe("exclusive-grant-live")
			iso := excl.inter(isolatedAll)
			if len(iso) > 0 {
				res.Probe("isolated-cpus-granted")
				res.Check("isolated-all-or-none")
				if !iso.equal(excl) {
					rep("isolated-all-or-none", "isolated-all-or-none", "container %s: exclusive CPUs %s mix isolated (%s) and ordinary CPUs", y.spec.ID, g.Exclusive, iso)
				}
				// only for requests eligible for isolation (unambiguous cases only)
				isoAnn, isoPresent := annTrue(y.pod.spec, y.spec.Name, "prefer-isolated-cpus."+rns)
				cfgIso := w.cfg.PreferIsolated != nil && *w.cfg.PreferIsolated
				if isoPresent && !isoAnn {
					rep("isolated-eligibility", "isolated-eligibility opted-out", "container %s is annotated to opt out of isolated CPUs but holds isolated CPUs %s", y.spec.ID, iso)
				}
				if y.cur.MilliCPU >= 2000 && !isoPresent && !cfgIso {
					rep("isolated-eligibility", "isolated-eligibility multi-core-default", "multi-core container %s is by default not eligible for isolated CPUs but holds %s", y.spec.ID, iso)
				}
			}
		}
		// cpu.shares == kubelet encoding of the granted capacity
		if w.cfg.PinCPU && y.t.HasShares {
			res.Check("shares")
			milli := g.SharedPortion
			if g.CPUType == "reserved" {
				milli = g.ReservedPortion
			}
			if milli == 0 {
				milli = 1000 * len(excl)
			}
			if want := sharesOf(milli); y.t.Shares != want {
				rep("shares", "shares", "container %s: granted %d mCPU (exclusive %d, portion %d) but told cpu.shares=%d, kubelet encoding is %d", y.spec.ID, milli, len(excl), g.Portion, y.t.Shares, want)
			}
		}
	}
}

func (w *world) zones() []*policyapi.TopologyZone {
	return policyPolicy(w).GetTopologyZones()
}

// zonesDump is the canonical rendering of GetTopologyZones (C09, C13).
func (o *oracles) zonesDump() string {
	var b strings.Builder
	zs := o.w.zones()
	sort.Slice(zs, func(i, j int) bool { return zs[i].Name < zs[j].Name })
	for _, z := range zs {
		fmt.Fprintf(&b, "Z %s parent=%s type=%s", z.Name, z.Parent, z.Type)
		rs := append([]*policyapi.ZoneResource(nil), z.Resources...)
		sort.Slice(rs, func(i, j int) bool { return rs[i].Name < rs[j].Name })
		for _, r := range rs {
			fmt.Fprintf(&b, " %s(cap=%s alloc=%s avail=%s)", r.Name, r.Capacity.String(), r.Allocatable.String(), r.Available.String())
		}
		as := append([]*policyapi.ZoneAttribute(nil), z.Attributes...)
		sort.Slice(as, func(i, j int) bool { return as[i].Name < as[j].Name })
		for _, a := range as {
			fmt.Fprintf(&b, " %s=%q", a.Name, a.Value)
		}
		b.WriteString("\n")
	}
	return b.String()
}
