// Command annsim is engine E5 (see main.go, build tag verif).
package main
