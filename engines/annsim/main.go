//go:build verif

// annsim (engine E5): effective-annotation resolution of the resource-policy
// cache and of the sgx-epc, memory-qos and memtierd plugins (transplanted by
// verifgen so that their handlers run in-package, constructed as main() does),
// explored over seeded map-iteration orders; plus the side-plugin half of C14
// (malformed annotations, absent configuration and sub-messages).
package main

import (
	"encoding/json"
	"fmt"
	"os"
	"path/filepath"
	"runtime/debug"
	"sort"
	"strconv"
	"strings"

	nri "github.com/containerd/nri/pkg/api"
	"github.com/containers/nri-plugins/pkg/resmgr/cache"

	"verifh/engines/annsim/memqos"
	"verifh/engines/annsim/memtierd"
	"verifh/engines/annsim/sgxepc"
	"verifh/sim"
	"verifh/verifrt"
)

type Case struct {
	N           int               `json:"n"`
	Annotations map[string]string `json:"annotations"`
	Containers  []string          `json:"containers"`
	Target      string            `json:"target"`
	MemLimit    int64             `json:"memlimit"`
	NoConfig    bool              `json:"noconfig,omitempty"`
	NoLinux     bool              `json:"nolinux,omitempty"`
	NoMemory    bool              `json:"nomemory,omitempty"`
	NoLimit     bool              `json:"nolimit,omitempty"`
}

type Plan struct {
	Cases []Case `json:"cases"`
}

func (p *Plan) NumOps() int { return len(p.Cases) }
func (p *Plan) Keep(keep []bool) sim.Plan {
	q := &Plan{}
	for i, c := range p.Cases {
		if keep[i] {
			q.Cases = append(q.Cases, c)
		}
	}
	return q
}
func (p *Plan) Simplify() []sim.Plan {
	var out []sim.Plan
	for i, c := range p.Cases {
		for k := range c.Annotations {
			q := &Plan{Cases: append([]Case(nil), p.Cases...)}
			nc := c
			nc.Annotations = map[string]string{}
			for k2, v := range c.Annotations {
				if k2 != k {
					nc.Annotations[k2] = v
				}
			}
			q.Cases[i] = nc
			out = append(out, q)
		}
	}
	return out
}

type engine struct{}

func (engine) Name() string         { return "annsim" }
func (engine) Properties() []string { return []string{"C18", "C14"} }
func (engine) Components() (real, stub []string) {
	return []string{"pkg/resmgr/cache pod.GetEffectiveAnnotation through a real cache", "cmd/plugins/sgx-epc parseEpcLimit + CreateContainer", "cmd/plugins/memory-qos effectiveAnnotations/applyQosClass/CreateContainer", "cmd/plugins/memtierd effectiveAnnotations/CreateContainer/StartContainer/StopContainer (handlers, constructed as main() does)"},
		[]string{"map iteration order = seeded (every range-over-map in the plugins is rewritten)", "NRI stub and runtime absent: handlers are called in-package", "memtierd child process is not run (its exec fails in the sandbox; the error path is exercised)"}
}
func (engine) Decode(raw json.RawMessage) (sim.Plan, error) {
	var p Plan
	if err := json.Unmarshal(raw, &p); err != nil {
		return nil, err
	}
	return &p, nil
}

const (
	rpSuffix  = ".resource-policy.nri.io"
	mqSuffix  = ".memory-qos.nri.io"
	mtdSuffix = ".memtierd.nri.io"
	epcKey    = "epc-limit.nri.io"
)

var names = []string{"c", "c1", "c10", "1", "a.b", "ab", "b", "pod", "container.c", "x-c", "c/pod", "io"}

func (engine) Generate(prop, tier string, seed uint64, faults bool) sim.Plan {
	r := verifrt.NewRand(verifrt.Mix(seed, "gen"))
	p := &Plan{}
	n := r.Range(3, 10)
	good := []string{"true", "false", "swap", "noswap", "max", "0", "1000000", "12345", "silver", ""}
	bad := []string{"{", "[1,2", "1e9", "-1", "\x00", "99999999999999999999999", "nil", strings.Repeat("y", 3000), "class", " 42", "4 2"}
	for i := 0; i < n; i++ {
		c := Case{N: i + 1, Annotations: map[string]string{}}
		k := r.Range(1, 4)
		seen := map[string]bool{}
		for len(c.Containers) < k {
			nm := verifrt.Pick(r, names)
			if !seen[nm] {
				seen[nm] = true
				c.Containers = append(c.Containers, nm)
			}
		}
		c.Target = verifrt.Pick(r, c.Containers)
		c.MemLimit = int64(r.Range(1, 64)) << 20
		val := func() string {
			if prop == "C14" && r.Chance(0.5) {
				return verifrt.Pick(r, bad)
			}
			return verifrt.Pick(r, good)
		}
		others := append([]string(nil), names...)
		// resource-policy style keys: k/container.<name>, k/pod, k
		for _, key := range []string{"prefer-shared-cpus" + rpSuffix, "memory-type" + rpSuffix, epcKey} {
			for _, nm := range others {
				if r.Chance(0.18) {
					c.Annotations[key+"/container."+nm] = val()
				}
			}
			if r.Chance(0.4) {
				c.Annotations[key+"/pod"] = val()
			}
			if r.Chance(0.4) {
				c.Annotations[key] = val()
			}
		}
		if _, ok := c.Annotations[epcKey]; ok && prop != "C14" {
			c.Annotations[epcKey] = strconv.Itoa(r.Intn(1 << 20))
		}
		for k2 := range c.Annotations {
			if strings.HasPrefix(k2, epcKey) && prop != "C14" {
				c.Annotations[k2] = strconv.Itoa(r.Intn(1 << 20))
			}
		}
		// memory-qos / memtierd style keys: <param><suffix>/<name>, <param><suffix>
		for _, suf := range []string{mqSuffix, mtdSuffix} {
			for _, param := range []string{"class", "memory.high", "memory.swap.max"} {
				for _, nm := range others {
					if r.Chance(0.12) {
						c.Annotations[param+suf+"/"+nm] = valFor(r, param, prop)
					}
				}
				if r.Chance(0.45) {
					c.Annotations[param+suf] = valFor(r, param, prop)
				}
			}
			if prop == "C14" && r.Chance(0.3) {
				c.Annotations["bogus"+suf] = val()
			}
		}
		if prop == "C14" {
			c.NoConfig, c.NoLinux, c.NoMemory, c.NoLimit = r.Chance(0.3), r.Chance(0.2), r.Chance(0.2), r.Chance(0.2)
		}
		p.Cases = append(p.Cases, c)
	}
	return p
}

func valFor(r *verifrt.Rand, param, prop string) string {
	if prop == "C14" && r.Chance(0.4) {
		return verifrt.Pick(r, []string{"{", "", "nil", "-1", "no-such-class", strings.Repeat("z", 2000)})
	}
	if param == "class" {
		return verifrt.Pick(r, []string{"swap", "noswap", "silver"})
	}
	return verifrt.Pick(r, []string{"max", "0", "1000000", "777"})
}

// reference resolver: container-specific > pod-wide > bare key
func refEffective(ann map[string]string, key, ctr string) (string, bool) {
	if v, ok := ann[key+"/container."+ctr]; ok {
		return v, true
	}
	if v, ok := ann[key+"/pod"]; ok {
		return v, true
	}
	v, ok := ann[key]
	return v, ok
}

// reference for memory-qos/memtierd: container-specific "<param><suffix>/<ctr>"
// beats pod-level "<param><suffix>"; everything else is not for this container
func refPluginEffective(ann map[string]string, suffix, ctr string) map[string]string {
	out := map[string]string{}
	for k, v := range ann {
		if p, ok := strings.CutSuffix(k, suffix); ok {
			if _, has := out[p]; !has {
				out[p] = v
			}
		}
	}
	for k, v := range ann {
		if p, ok := strings.CutSuffix(k, suffix+"/"+ctr); ok {
			out[p] = v
		}
	}
	return out
}

const memqosConfig = `
unifiedannotations: ["memory.high", "memory.swap.max"]
classes:
- name: swap
  swaplimitratio: 0.5
- name: noswap
  swaplimitratio: 0
- name: silver
  swaplimitratio: 0.25
`

const memtierdConfig = `
classes:
- name: swap
  allowswap: true
  memtierdconfig: "marker: swap"
- name: noswap
  allowswap: false
  memtierdconfig: "marker: noswap"
- name: silver
`

func unifiedStr(a *nri.ContainerAdjustment) string {
	if a == nil || a.Linux == nil || a.Linux.Resources == nil {
		return "{}"
	}
	u := a.Linux.Resources.Unified
	ks := make([]string, 0, len(u))
	for k := range u {
		ks = append(ks, k)
	}
	sort.Strings(ks)
	var b strings.Builder
	for _, k := range ks {
		fmt.Fprintf(&b, "%s=%s;", k, u[k])
	}
	return "{" + b.String() + "}"
}

func (e engine) Execute(prop string, plan sim.Plan, seed uint64, res *sim.RunResult) {
	p := plan.(*Plan)
	res.Ops = len(p.Cases)
	res.Sample = p
	root, err := os.MkdirTemp("", "verif-annsim-*")
	if err != nil {
		panic(err)
	}
	defer os.RemoveAll(root)
	vw := verifrt.NewWorld(seed, verifrt.OrderSeeded)
	vw.NewFS(filepath.Join(root, "state"))
	cch, err := cache.NewCache(cache.Options{CacheDir: filepath.Join(root, "state")})
	if err != nil {
		panic(err)
	}
	mq, _ := memqos.New(memqosConfig)
	mqNoCfg, _ := memqos.New("")
	mt, _ := memtierd.New(memtierdConfig, filepath.Join(root, "run"))
	mtNoCfg, _ := memtierd.New("", filepath.Join(root, "run"))
	sg := sgxepc.New()

	guard := func(step int, what string, f func()) {
		defer func() {
			if r := recover(); r != nil {
				st := string(debug.Stack())
				site := "unknown"
				lines := strings.Split(st, "\n")
				for i, l := range lines {
					if strings.HasPrefix(l, "panic(") {
						for _, l2 := range lines[i+1:] {
							if strings.Contains(l2, "annsim/") || strings.Contains(l2, "nri-plugins/") {
								site = strings.TrimSpace(l2)
								if k := strings.LastIndex(site, "("); k > 0 {
									site = site[:k]
								}
								site = strings.TrimPrefix(site, "verifh/engines/annsim/")
								break
							}
						}
						break
					}
				}
				res.Violate("C14", "handler-returns", "C14 side-plugin "+what+" panic at "+site, step, "%s panicked: %v\n%s", what, r, firstN(st, 14))
			}
		}()
		f()
	}

	changes := 0
	for step, c := range p.Cases {
		vw.SetRequest(fmt.Sprintf("case%d", c.N))
		pod := &nri.PodSandbox{Id: fmt.Sprintf("pod%d", c.N), Name: "p", Namespace: "default", Annotations: c.Annotations}
		ctr := &nri.Container{Id: fmt.Sprintf("ctr%d", c.N), PodSandboxId: pod.Id, Name: c.Target}
		if !c.NoLinux {
			ctr.Linux = &nri.LinuxContainer{Resources: &nri.LinuxResources{}}
			if !c.NoMemory {
				ctr.Linux.Resources.Memory = &nri.LinuxMemory{}
				if !c.NoLimit {
					ctr.Linux.Resources.Memory.Limit = nri.Int64(c.MemLimit)
				}
			}
		}
		others := map[string]string{} // annotations without those addressed to other containers
		for k, v := range c.Annotations {
			addressed := false
			for _, nm := range names {
				if nm == c.Target {
					continue
				}
				if strings.HasSuffix(k, "/container."+nm) || strings.HasSuffix(k, mqSuffix+"/"+nm) || strings.HasSuffix(k, mtdSuffix+"/"+nm) {
					addressed = true
				}
			}
			// a key that is also addressed to the target (one name is a suffix of another) stays
			if strings.HasSuffix(k, "/container."+c.Target) || strings.HasSuffix(k, mqSuffix+"/"+c.Target) || strings.HasSuffix(k, mtdSuffix+"/"+c.Target) {
				addressed = false
			}
			if !addressed {
				others[k] = v
			}
		}
		podOnlyMine := &nri.PodSandbox{Id: pod.Id, Name: "p", Namespace: "default", Annotations: others}

		// ---- (a) resource-policy cache
		if prop == "C18" {
			cp := cch.InsertPod(pod, nil)
			for _, key := range []string{"prefer-shared-cpus" + rpSuffix, "memory-type" + rpSuffix} {
				res.Check("cache-effective-annotation")
				gv, gok := cp.GetEffectiveAnnotation(key, c.Target)
				wv, wok := refEffective(c.Annotations, key, c.Target)
				if gv != wv || gok != wok {
					res.Violate("C18", "cache-effective-annotation", "C18 cache-effective-annotation", step, "GetEffectiveAnnotation(%q, %q) = (%q,%v), reference (container-specific > pod > bare) gives (%q,%v); annotations: %v", key, c.Target, gv, gok, wv, wok, c.Annotations)
				}
			}
			if c.N%2 == 0 {
				// the same question after a restart: a second cache instance on
				// the state directory the first one has saved the pod to
				res.Check("cache-effective-annotation")
				if err := cch.Save(); err != nil {
					panic(err)
				}
				c2, err := cache.NewCache(cache.Options{CacheDir: filepath.Join(root, "state")})
				if err != nil {
					panic(fmt.Errorf("second cache instance on the saved state: %w", err))
				}
				if rp, ok := c2.LookupPod(pod.Id); !ok {
					res.Violate("C18", "cache-effective-annotation", "C18 cache-effective-annotation after-restart pod-lost", step, "pod %s is not in the cache restored from the state directory", pod.Id)
				} else {
					for _, key := range []string{"prefer-shared-cpus" + rpSuffix, "memory-type" + rpSuffix} {
						gv, gok := rp.GetEffectiveAnnotation(key, c.Target)
						wv, wok := refEffective(c.Annotations, key, c.Target)
						if gv != wv || gok != wok {
							res.Violate("C18", "cache-effective-annotation", "C18 cache-effective-annotation after-restart", step, "restored pod: GetEffectiveAnnotation(%q, %q) = (%q,%v), reference gives (%q,%v); annotations: %v", key, c.Target, gv, gok, wv, wok, c.Annotations)
						}
					}
				}
			}
			cch.DeletePod(pod.Id)
			// ---- (b) sgx-epc
			res.Check("sgx-epc-limit")
			gl, gerr := sgxepc.ParseEpcLimit(c.Annotations, c.Target)
			wv, wok := refEffective(c.Annotations, epcKey, c.Target)
			var wl uint64
			var werr error
			if wok {
				wl, werr = strconv.ParseUint(wv, 10, 64)
			}
			if (gerr != nil) != (werr != nil) || (gerr == nil && gl != wl) {
				res.Violate("C18", "sgx-epc-limit", "C18 sgx-epc-limit", step, "parseEpcLimit for %q = (%d,%v), reference gives (%d,%v); annotations: %v", c.Target, gl, gerr, wl, werr, c.Annotations)
			}
		}

		// ---- (c),(d) memory-qos and memtierd under several iteration orders
		type outcome struct {
			unified string
			failed  bool
		}
		runOrders := func(what string, f func(*nri.PodSandbox) (*nri.ContainerAdjustment, error)) (outcome, bool) {
			var first outcome
			ok := true
			for i, salt := range []uint64{0, 0x11, 0x2222, 0x333333, 0x4444, 0x55, 0x6, 0x777} {
				vw.OrderSalt = salt
				vw.Order = verifrt.OrderSeeded
				if i == 0 {
					vw.Order = verifrt.OrderCanonical
				} else if i == 1 {
					vw.Order = verifrt.OrderReverse
				}
				var o outcome
				guard(step, what, func() {
					a, err := f(pod)
					o = outcome{unifiedStr(a), err != nil}
				})
				if i == 0 {
					first = o
				} else if o != first && prop == "C18" {
					res.Check("order-independent")
					res.Violate("C18", "order-independent", "C18 order-independent "+what, step, "%s CreateContainer for %q gives %s (failed=%v) under one annotation iteration order and %s (failed=%v) under another; annotations: %v", what, c.Target, first.unified, first.failed, o.unified, o.failed, c.Annotations)
					ok = false
					break
				}
			}
			vw.OrderSalt, vw.Order = 0, verifrt.OrderSeeded
			res.Check("order-independent")
			return first, ok
		}
		mqh, mth := mq, mt
		if c.NoConfig {
			mqh, mth = mqNoCfg, mtNoCfg
		}
		mqOut, _ := runOrders("memory-qos", func(pd *nri.PodSandbox) (*nri.ContainerAdjustment, error) {
			a, _, err := mqh.CreateContainer(pd, ctr)
			return a, err
		})
		mtOut, _ := runOrders("memtierd", func(pd *nri.PodSandbox) (*nri.ContainerAdjustment, error) {
			a, _, err := mth.CreateContainer(pd, ctr)
			return a, err
		})
		if prop == "C18" && !c.NoConfig && !c.NoLinux {
			// StartContainer resolves the class again: the memtierd it prepares
			// must be the one of the class that is effective for this container
			res.Check("memtierd-start-class")
			want := ""
			if cls, ok := refPluginEffective(c.Annotations, mtdSuffix, c.Target)["class"]; ok && (cls == "swap" || cls == "noswap") {
				want = "marker: " + cls
			}
			if got := mt.StartedClassMarker(pod, ctr, root); got != want {
				res.Violate("C18", "memtierd-start-class", "C18 memtierd-start-class", step, "memtierd StartContainer for container %q prepared the memtierd configuration %q, the class effective for it gives %q; annotations: %v", c.Target, got, want, c.Annotations)
			}
			mt.StopContainer(pod, ctr)
		}
		if prop == "C14" {
			guard(step, "memtierd StartContainer", func() { mth.StartContainer(pod, ctr) })
			guard(step, "memtierd StopContainer", func() { mth.StopContainer(pod, ctr) })
			guard(step, "sgx-epc CreateContainer", func() { sg.CreateContainer(pod, ctr) })
		}
		if prop == "C18" && !c.NoConfig && !c.NoLinux && !c.NoMemory && !c.NoLimit {
			// annotations addressed to other containers have no effect
			for _, pl := range []struct {
				what string
				out  outcome
				f    func(*nri.PodSandbox) (*nri.ContainerAdjustment, error)
			}{
				{"memory-qos", mqOut, func(pd *nri.PodSandbox) (*nri.ContainerAdjustment, error) {
					a, _, err := mq.CreateContainer(pd, ctr)
					return a, err
				}},
				{"memtierd", mtOut, func(pd *nri.PodSandbox) (*nri.ContainerAdjustment, error) {
					a, _, err := mt.CreateContainer(pd, ctr)
					return a, err
				}},
			} {
				res.Check("others-no-effect")
				a, err := pl.f(podOnlyMine)
				if o := (outcome{unifiedStr(a), err != nil}); o != pl.out {
					res.Violate("C18", "others-no-effect", "C18 others-no-effect "+pl.what, step, "%s CreateContainer for %q gives %s (failed=%v) with, and %s (failed=%v) without, the annotations addressed to other containers; annotations: %v", pl.what, c.Target, pl.out.unified, pl.out.failed, o.unified, o.failed, c.Annotations)
				}
			}
			// explicit parameter beats the class-derived value; container beats pod
			for _, pl := range []struct {
				what, suffix string
				out          outcome
			}{{"memory-qos", mqSuffix, mqOut}, {"memtierd", mtdSuffix, mtOut}} {
				if pl.out.failed {
					continue
				}
				eff := refPluginEffective(c.Annotations, pl.suffix, c.Target)
				for _, param := range []string{"memory.high", "memory.swap.max"} {
					if v, ok := eff[param]; ok {
						res.Check("explicit-beats-class")
						if !strings.Contains(pl.out.unified, param+"="+v+";") {
							res.Violate("C18", "explicit-beats-class", "C18 explicit-beats-class "+pl.what, step, "%s: container %q has the explicit effective annotation %s=%q but the adjustment is %s; annotations: %v", pl.what, c.Target, param, v, pl.out.unified, c.Annotations)
						}
					}
				}
				if len(eff) > 0 {
					changes++
				}
			}
		}
		res.State(sim.Hash64(mqOut.unified, mtOut.unified, fmt.Sprint(mqOut.failed, mtOut.failed), c.Target))
		vw.Logf("case%d %s %s", c.N, mqOut.unified, mtOut.unified)
		if len(res.Violations) > 0 {
			break
		}
	}
	res.Nontrivial = changes >= 1 || prop == "C14"
	res.Digest = fmt.Sprintf("%016x", vw.LogDigest())
	res.Extra["map-iterations"] += int(vw.IterCalls)
}

func firstN(s string, n int) string {
	l := strings.Split(s, "\n")
	if len(l) > n {
		l = l[:n]
	}
	return strings.Join(l, "\n")
}

func main() { sim.Main(engine{}) }
