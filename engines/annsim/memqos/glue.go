//go:build verif

package memqos

import (
	"context"
	"io"

	"github.com/containerd/nri/pkg/api"
	"github.com/sirupsen/logrus"
)

func init() {
	log = logrus.New()
	log.SetOutput(io.Discard)
}

// Handle is the plugin constructed exactly as main() does: &plugin{} plus an
// optional configuration.
type Handle struct{ p *plugin }

func New(config string) (*Handle, error) {
	p := &plugin{}
	if config != "" {
		if err := p.setConfig([]byte(config)); err != nil {
			return nil, err
		}
	}
	return &Handle{p}, nil
}

func (h *Handle) CreateContainer(pod *api.PodSandbox, ctr *api.Container) (*api.ContainerAdjustment, []*api.ContainerUpdate, error) {
	return h.p.CreateContainer(context.Background(), pod, ctr)
}
