// Package memqos hosts a verifgen transplant of the corresponding nri-plugins
// side plugin (package main in the repository) so that its unexported
// handlers can be driven in-package; see glue.go (build tag verif).
package memqos
