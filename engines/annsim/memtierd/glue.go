//go:build verif

package memtierd

import (
	"context"
	"io"

	"github.com/containerd/nri/pkg/api"
	"github.com/sirupsen/logrus"
)

func init() {
	log = logrus.New()
	log.SetOutput(io.Discard)
}

type Handle struct{ p *plugin }

func New(config string, runDir string) (*Handle, error) {
	p := &plugin{ctrMemtierdEnv: map[string]*memtierdEnv{}}
	opt.runDir = runDir
	if config != "" {
		if err := p.setConfig([]byte(config)); err != nil {
			return nil, err
		}
	}
	return &Handle{p}, nil
}

func (h *Handle) CreateContainer(pod *api.PodSandbox, ctr *api.Container) (*api.ContainerAdjustment, []*api.ContainerUpdate, error) {
	return h.p.CreateContainer(context.Background(), pod, ctr)
}

func (h *Handle) StartContainer(pod *api.PodSandbox, ctr *api.Container) error {
	return h.p.StartContainer(context.Background(), pod, ctr)
}

func (h *Handle) StopContainer(pod *api.PodSandbox, ctr *api.Container) ([]*api.ContainerUpdate, error) {
	return h.p.StopContainer(context.Background(), pod, ctr)
}
