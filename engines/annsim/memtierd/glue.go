//go:build verif

package memtierd

import (
	"context"
	"io"
	"os"
	"path/filepath"

	"github.com/containerd/nri/pkg/api"
	"github.com/sirupsen/logrus"
)

func init() {
	log = logrus.New()
	log.SetOutput(io.Discard)
}

type Handle struct{ p *plugin }

func New(config string, runDir string) (*Handle, error) {
	p := &plugin{ctrMemtierdEnv: map[string]*memtierdEnv{}}
	opt.runDir = runDir
	if config != "" {
		if err := p.setConfig([]byte(config)); err != nil {
			return nil, err
		}
	}
	return &Handle{p}, nil
}

func (h *Handle) CreateContainer(pod *api.PodSandbox, ctr *api.Container) (*api.ContainerAdjustment, []*api.ContainerUpdate, error) {
	return h.p.CreateContainer(context.Background(), pod, ctr)
}

func (h *Handle) StartContainer(pod *api.PodSandbox, ctr *api.Container) error {
	return h.p.StartContainer(context.Background(), pod, ctr)
}

// StartedClassMarker runs StartContainer with a scratch cgroup tree that has a
// directory for the container and returns the memtierd configuration the
// handler instantiated for it ("" if none). The memtierd child itself cannot
// be started in the sandbox; the configuration file is written before that.
func (h *Handle) StartedClassMarker(pod *api.PodSandbox, ctr *api.Container, scratch string) string {
	cg := filepath.Join(scratch, "cgroup")
	os.MkdirAll(filepath.Join(cg, "kubepods", "cri-"+ctr.GetId()+".scope"), 0o755)
	h.p.cgroupsDir = cg
	cfg := filepath.Join(opt.runDir, pod.GetNamespace(), pod.GetName(), ctr.GetName(), "memtierd.config.yaml")
	os.Remove(cfg)
	h.p.StartContainer(context.Background(), pod, ctr)
	b, err := os.ReadFile(cfg)
	if err != nil {
		return ""
	}
	return string(b)
}

func (h *Handle) StopContainer(pod *api.PodSandbox, ctr *api.Container) ([]*api.ContainerUpdate, error) {
	return h.p.StopContainer(context.Background(), pod, ctr)
}
