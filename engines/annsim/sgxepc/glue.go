//go:build verif

package sgxepc

import (
	"context"
	"io"

	"github.com/containerd/nri/pkg/api"
	"github.com/sirupsen/logrus"
)

func init() {
	log = logrus.New()
	log.SetOutput(io.Discard)
}

type Handle struct{ p *plugin }

func New() *Handle { return &Handle{&plugin{}} }

func (h *Handle) CreateContainer(pod *api.PodSandbox, ctr *api.Container) (*api.ContainerAdjustment, []*api.ContainerUpdate, error) {
	return h.p.CreateContainer(context.Background(), pod, ctr)
}

// ParseEpcLimit exposes the annotation resolver.
func ParseEpcLimit(annotations map[string]string, ctr string) (uint64, error) {
	return parseEpcLimit(annotations, ctr)
}
