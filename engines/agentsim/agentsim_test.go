package agentsim

import (
	"encoding/json"
	"flag"
	"fmt"
	"os"
	"path/filepath"
	"sort"
	"strings"
	"testing"
	"testing/synctest"
	"time"

	"github.com/containers/nri-plugins/pkg/agent"
	metav1 "k8s.io/apimachinery/pkg/apis/meta/v1"
	"k8s.io/klog/v2"

	"verifh/sim"
	"verifh/verifrt"
	"verifh/verifrt/agentnet"
)

var theT *testing.T

func TestMain(m *testing.M) {
	flag.Parse()
	flag.Set("test.timeout", "0")
	os.Exit(m.Run())
}

func TestEngine(t *testing.T) {
	theT = t
	sim.RunParsed(engine{})
	os.Exit(0)
}

const nodeName = "n1"
const namespace = "kube-system"

type engine struct{}

func (engine) Name() string         { return "agentsim" }
func (engine) Properties() []string { return []string{"C17"} }
func (engine) Components() (real, stub []string) {
	return []string{
			"pkg/agent (Agent.New/Start select loop, setupNodeWatch/NodeConfigWatch/GroupConfigWatch, updateNodeConfig/updateGroupConfig/updateConfig, sameConfigVersion, patchConfigStatus, configure)",
			"pkg/agent/watch.ObjectWatch (forwarding goroutine, expiry re-open, error/overflow back-off of 5 s on the fake clock)",
			"pkg/agent config-interface.go (BalloonsConfigInterface) over pkg/generated/clientset",
			"pkg/apis/config/v1alpha1 (decoding, BalloonsPolicy.Validate, NodeStatusPatch)",
			"k8s.io/client-go kubernetes clientset, REST client, watch decoder, rate limiter, clientcmd kubeconfig loading",
		}, []string{
			"Kubernetes API server (simulated behind http.RoundTripper: node and custom-resource watch streams, status PATCH; events released one at a time by the seeded scheduler)",
			"the plugin (notify callback: records the delivered object, may reject it)",
			"clock and timers (testing/synctest bubble)", "goroutine scheduling (quiescence between releases: only one stream is ever ready)",
			"NRT and pod-resources clients (created, never used)",
		}
}

// ---------------------------------------------------------------------------
// plan

type Op struct {
	N    int    `json:"n"`
	Kind string `json:"kind"` // set del touch label expire error failcreate patchfail reject restart sleep drain
	// set/del/touch: the custom resource ("node", "default", "group.g1", "group.g2")
	CR      string `json:"cr,omitempty"`
	Invalid bool   `json:"invalid,omitempty"`  // set: spec fails validation
	Recreat bool   `json:"recreate,omitempty"` // set: delete + create with a new UID
	// label: the node's group ("" = none) and which label key carries it
	Group string `json:"group,omitempty"`
	Key   int    `json:"key,omitempty"`
	// expire/error: the watch ("nodes", "node", "group")
	Watch string `json:"watch,omitempty"`
	Count int    `json:"count,omitempty"` // failcreate/patchfail/reject: how many
	Hold  bool   `json:"hold,omitempty"`  // do not release the queued events after this op
	Burst bool   `json:"burst,omitempty"` // release all queued events of the chosen stream back to back
	Sleep int    `json:"sleep,omitempty"` // fake milliseconds between releases
}

type Plan struct {
	Ops     []Op   `json:"ops"`
	InitCR  []Op   `json:"init,omitempty"` // resources existing before the agent starts
	InitGrp string `json:"initgroup,omitempty"`
	Heal    bool   `json:"heal"` // final phase: faults stop, one more node event
}

func (p *Plan) NumOps() int { return len(p.Ops) }
func (p *Plan) Keep(keep []bool) sim.Plan {
	q := *p
	q.Ops = nil
	for i, o := range p.Ops {
		if keep[i] {
			q.Ops = append(q.Ops, o)
		}
	}
	return &q
}
func (p *Plan) Simplify() []sim.Plan {
	var out []sim.Plan
	if len(p.InitCR) > 0 {
		q := *p
		q.InitCR = nil
		out = append(out, &q)
	}
	for i, o := range p.Ops {
		if o.Hold || o.Burst || o.Sleep != 0 {
			q := *p
			q.Ops = append([]Op(nil), p.Ops...)
			q.Ops[i].Hold, q.Ops[i].Burst, q.Ops[i].Sleep = false, false, 0
			out = append(out, &q)
		}
	}
	return out
}

func (engine) Decode(raw json.RawMessage) (sim.Plan, error) {
	var p Plan
	if err := json.Unmarshal(raw, &p); err != nil {
		return nil, err
	}
	return &p, nil
}

var crNames = []string{"node", "default", "group.g1", "group.g2"}
var groups = []string{"", "g1", "g2"}

func (engine) Generate(prop, tier string, seed uint64, faults bool) sim.Plan {
	r := verifrt.NewRand(verifrt.Mix(seed, "plan"))
	p := &Plan{Heal: true}
	n := 4 + r.Intn(20)
	if tier == "thorough" {
		n = 4 + r.Intn(60)
	}
	// swarm: per-run weights
	wSet, wDel, wTouch, wLabel := 6+r.Intn(10), 1+r.Intn(5), r.Intn(4), 1+r.Intn(4)
	wExpire, wError, wFailC, wPatchF, wReject, wRestart, wSleep := r.Intn(3), r.Intn(3), r.Intn(2), r.Intn(2), r.Intn(3), r.Intn(2), r.Intn(2)
	if !faults {
		// the fault-free configuration still has what every deployment meets:
		// watch expiry, status-patch echoes, duplicates
		wError, wFailC, wPatchF, wReject, wRestart = 0, 0, 0, 0, 0
	}
	pInvalid := r.Intn(4) // of 10
	pHold := r.Intn(5)
	for _, cr := range crNames {
		if r.Intn(3) == 0 {
			p.InitCR = append(p.InitCR, Op{Kind: "set", CR: cr, Invalid: r.Intn(10) < pInvalid})
		}
	}
	p.InitGrp = groups[r.Intn(len(groups))]
	tot := wSet + wDel + wTouch + wLabel + wExpire + wError + wFailC + wPatchF + wReject + wRestart + wSleep
	for i := 0; i < n; i++ {
		op := Op{N: i + 1}
		x := r.Intn(tot)
		pick := func(w int) bool {
			if x < w {
				return true
			}
			x -= w
			return false
		}
		switch {
		case pick(wSet):
			op.Kind, op.CR = "set", crNames[r.Intn(len(crNames))]
			if r.Intn(2) == 0 {
				op.CR = "node" // the node-specific one is the interesting one
			}
			op.Invalid = r.Intn(10) < pInvalid
			op.Recreat = r.Intn(8) == 0
		case pick(wDel):
			op.Kind, op.CR = "del", crNames[r.Intn(len(crNames))]
			if r.Intn(2) == 0 {
				op.CR = "node"
			}
		case pick(wTouch):
			op.Kind, op.CR = "touch", crNames[r.Intn(len(crNames))]
		case pick(wLabel):
			op.Kind, op.Group, op.Key = "label", groups[r.Intn(len(groups))], 0
			if r.Intn(6) == 0 {
				op.Key = 1 + r.Intn(2)
			}
		case pick(wExpire):
			op.Kind, op.Watch = "expire", []string{"nodes", "node", "group"}[r.Intn(3)]
		case pick(wError):
			op.Kind, op.Watch = "error", []string{"nodes", "node", "group"}[r.Intn(3)]
		case pick(wFailC):
			op.Kind, op.Count = "failcreate", 1+r.Intn(3)
		case pick(wPatchF):
			op.Kind, op.Count = "patchfail", 1+r.Intn(3)
		case pick(wReject):
			op.Kind, op.Count = "reject", 1+r.Intn(2)
		case pick(wRestart):
			op.Kind = "restart"
		default:
			op.Kind, op.Sleep = "sleep", []int{1, 1000, 4999, 5000, 5001, 60000}[r.Intn(6)]
		}
		if op.Kind == "set" || op.Kind == "del" || op.Kind == "touch" || op.Kind == "label" {
			op.Hold = r.Intn(10) < pHold
			op.Burst = r.Intn(6) == 0
			if r.Intn(4) == 0 {
				op.Sleep = []int{1, 1000, 6000}[r.Intn(3)]
			}
		}
		p.Ops = append(p.Ops, op)
	}
	return p
}

// ---------------------------------------------------------------------------
// reference model (from docs/resource-policy/configuration.md and the property)

type ver struct {
	Name  string
	UID   string
	Gen   int64
	Valid bool
}

func (v *ver) String() string {
	if v == nil {
		return "none"
	}
	s := fmt.Sprintf("%s uid=%s gen=%d", v.Name, v.UID, v.Gen)
	if !v.Valid {
		s += " (invalid)"
	}
	return s
}

func same(a, b *ver) bool {
	if a == nil || b == nil {
		return a == nil && b == nil
	}
	return a.UID == b.UID && a.Gen == b.Gen
}

type model struct {
	node, group *ver
	last        *ver // most recently delivered to the plugin
}

// consume returns what must be delivered to the plugin for the event (nil =
// nothing) and why.
func (m *model) consume(kind string, typ string, v *ver) (*ver, string) {
	if typ != "ADDED" && typ != "MODIFIED" && typ != "DELETED" {
		return nil, "not a change event"
	}
	if typ == "DELETED" {
		v = nil
	}
	switch kind {
	case "node":
		if same(v, m.node) {
			return nil, "re-delivery of the node-specific version already seen"
		}
		m.node = v
		eff := m.node
		if eff == nil {
			eff = m.group
		}
		if eff == nil {
			return nil, "no configuration in effect"
		}
		if !eff.Valid {
			return nil, "configuration fails validation"
		}
		return eff, "node-specific configuration changed"
	case "group":
		if same(v, m.group) {
			return nil, "re-delivery of the group/default version already seen"
		}
		m.group = v
		if m.node != nil {
			return nil, "a node-specific configuration exists"
		}
		if v == nil {
			return nil, "no configuration in effect"
		}
		if !v.Valid {
			return nil, "configuration fails validation"
		}
		return v, "group/default configuration changed and no node-specific one exists"
	}
	return nil, "node object event"
}

// ---------------------------------------------------------------------------
// execution

type world struct {
	res   *sim.RunResult
	rng   *verifrt.Rand
	srv   *server
	ag    *agent.Agent
	m     model
	got   []*ver // deliveries since the last check
	rej   int    // reject the next deliveries
	step  int
	done  chan error
	log   []string
	alive bool
}

func (w *world) logf(format string, a ...any) {
	w.log = append(w.log, fmt.Sprintf(format, a...))
}

func verOf(cfg interface{}) *ver {
	o, ok := cfg.(metav1.Object)
	if !ok || o == nil {
		return &ver{Name: fmt.Sprintf("%T", cfg)}
	}
	v := &ver{Name: o.GetName(), UID: string(o.GetUID()), Gen: o.GetGeneration(), Valid: true}
	if val, ok := cfg.(interface{ Validate() error }); ok && val.Validate() != nil {
		v.Valid = false
	}
	return v
}

func (w *world) startAgent() error {
	a, err := agent.New(agent.BalloonsConfigInterface(), agent.WithKubeConfig(w.srv.kubeconfig))
	if err != nil {
		return err
	}
	w.ag = a
	w.done = make(chan error, 1)
	w.alive = true
	done := w.done
	go func() {
		done <- a.Start(func(cfg interface{}) (bool, error) {
			w.got = append(w.got, verOf(cfg))
			if w.rej > 0 {
				w.rej--
				w.res.Fault("plugin.rejects-configuration")
				return false, fmt.Errorf("simulated: plugin rejects the configuration")
			}
			return false, nil
		})
	}()
	w.settle(time.Millisecond)
	select {
	case err := <-w.done:
		w.alive = false
		return fmt.Errorf("agent.Start returned: %v", err)
	default:
	}
	return nil
}

func (w *world) stopAgent() {
	if w.ag == nil || !w.alive {
		return
	}
	agent.VerifStop(w.ag)
	w.settle(time.Millisecond)
	select {
	case <-w.done:
	default:
		// the loop did not return: leave it to the end-of-bubble check
	}
	w.alive = false
	w.srv.closeAll()
	w.settle(time.Millisecond)
}

// settle lets fake time pass and waits until every goroutine is blocked.
func (w *world) settle(d time.Duration) {
	time.Sleep(d)
	synctest.Wait()
}

func (e engine) Execute(prop string, plan sim.Plan, seed uint64, res *sim.RunResult) {
	p := plan.(*Plan)
	res.Ops = len(p.Ops)
	res.Sample = p
	setupProcess()
	dir, err := os.MkdirTemp("", "verif-agentsim-*")
	if err != nil {
		panic(err)
	}
	defer os.RemoveAll(dir)
	var start time.Time
	var simulated time.Duration
	var bubbleErr any
	func() {
		defer func() {
			if r := recover(); r != nil {
				bubbleErr = r
			}
		}()
		synctest.Test(theT, func(t *testing.T) {
			start = time.Now()
			w := &world{res: res, rng: verifrt.NewRand(verifrt.Mix(seed, "schedule"))}
			w.srv = newServer(dir, w)
			agentnet.Transport = w.srv
			w.run(p)
			simulated = time.Since(start)
			h := sim.Hash64(w.log...)
			res.Digest = fmt.Sprintf("%016x", h)
			if os.Getenv("VERIF_TRACE") != "" {
				for _, l := range w.log {
					fmt.Fprintln(os.Stderr, "TRACE", l)
				}
			}
		})
	}()
	if bubbleErr != nil {
		s := fmt.Sprint(bubbleErr)
		if strings.Contains(s, "deadlock") {
			// goroutines of the agent were still blocked after it was told to
			// stop and every stream had been closed
			res.Violate("C17", "agent-stops", "C17 harness agent-goroutines-left-behind", 0, "goroutines left blocked at the end of the run: %v", s)
		} else {
			panic(bubbleErr)
		}
	}
	res.SimSeconds = simulated.Seconds()
	res.Nontrivial = res.Extra["deliveries"] >= 2
}

func setupProcess() {
	os.Setenv("NODE_NAME", nodeName)
	klog.OsExit = func(code int) { panic(fmt.Sprintf("log.Fatal: exit %d", code)) }
}

func (w *world) run(p *Plan) {
	srv := w.srv
	// pre-existing cluster state
	srv.setNodeLabel(p.InitGrp, 0)
	for _, o := range p.InitCR {
		srv.setCR(o.CR, o.Invalid, false)
	}
	srv.dropQueued() // nobody was watching
	if err := w.startAgent(); err != nil {
		w.res.AddExtra("start-refused", 1)
		w.logf("start refused: %v", err)
		return
	}
	w.drain(false, 0)
	for i := range p.Ops {
		op := p.Ops[i]
		w.step = i
		w.logf("op%d %s %s%s%s", op.N, op.Kind, op.CR, op.Group, op.Watch)
		switch op.Kind {
		case "set":
			srv.setCR(op.CR, op.Invalid, op.Recreat)
		case "del":
			srv.delCR(op.CR)
		case "touch":
			srv.touchCR(op.CR)
		case "label":
			srv.setNodeLabel(op.Group, op.Key)
		case "expire":
			if srv.expire(op.Watch) {
				w.res.Fault("watch.expired")
			}
			w.settle(time.Millisecond)
		case "error":
			if srv.sendError(op.Watch) {
				w.res.Fault("watch.error-event")
			}
			w.settle(time.Millisecond)
		case "failcreate":
			srv.failCreate += op.Count
		case "patchfail":
			srv.failPatch += op.Count
		case "reject":
			w.rej += op.Count
		case "restart":
			w.res.Fault("agent.restart")
			w.stopAgent()
			w.checkQuiet("restart")
			w.m = model{}
			srv.dropQueued()
			if err := w.startAgent(); err != nil {
				w.res.AddExtra("restart-refused", 1)
				w.logf("restart refused: %v", err)
				return
			}
		case "sleep":
			w.settle(time.Duration(op.Sleep) * time.Millisecond)
		}
		if !w.alive {
			return
		}
		if op.Hold {
			w.res.Probe("events-held-back")
			w.checkQuiet(op.Kind)
			continue
		}
		w.drain(op.Burst, time.Duration(op.Sleep)*time.Millisecond)
		if len(w.res.Violations) > 0 {
			break
		}
	}
	if p.Heal && len(w.res.Violations) == 0 && w.alive {
		// faults stop; one more node event; everything queued is released
		srv.failCreate, srv.failPatch, w.rej = 0, 0, 0
		w.settle(6 * time.Second)
		srv.setNodeLabel(srv.group, 0)
		w.drain(false, 6*time.Second)
		w.drain(false, 6*time.Second)
		if len(w.res.Violations) == 0 {
			w.checkHealed()
		}
	}
	w.stopAgent()
}

// drain releases queued events, one stream at a time chosen by the seeded
// scheduler, and judges the plugin-visible reaction to each.
func (w *world) drain(burst bool, gap time.Duration) {
	if gap == 0 {
		gap = time.Millisecond
	}
	for n := 0; n < 400; n++ {
		names := w.srv.pendingStreams()
		if len(names) == 0 {
			w.settle(gap)
			if len(w.srv.pendingStreams()) == 0 {
				w.checkQuiet("idle")
				return
			}
			continue
		}
		name := names[w.rng.Intn(len(names))]
		k := 1
		if burst {
			k = 1 << 20
			w.res.Probe("burst-release")
		}
		evs := w.srv.release(name, k)
		w.settle(gap)
		w.judge(name, evs)
		if len(w.res.Violations) > 0 {
			return
		}
	}
	w.res.Violate("C17", "no-redelivery-reconfiguration", "C17 event-storm", w.step, "400 events released after one operation and the streams still are not quiet: the agent's own status patches keep causing re-configuration")
}

func kindOfStream(name string) string {
	switch {
	case name == "nodes":
		return "nodes"
	case name == "node."+nodeName:
		return "node"
	}
	return "group"
}

func (w *world) judge(stream string, evs []event) {
	kind := kindOfStream(stream)
	var want []*ver
	var why []string
	for _, ev := range evs {
		w.res.AddExtra("events-"+kind, 1)
		x, reason := w.m.consume(kind, ev.Type, ev.ver)
		why = append(why, fmt.Sprintf("%s %s %s -> %s", stream, ev.Type, ev.ver, reason))
		if reason == "a node-specific configuration exists" {
			w.res.Probe("group-update-while-node-specific-exists")
		}
		if strings.HasPrefix(reason, "re-delivery") {
			w.res.Probe("re-delivery-of-seen-version")
		}
		if reason == "configuration fails validation" {
			w.res.Probe("invalid-configuration-in-effect")
		}
		if kind == "node" && ev.Type == "DELETED" && x != nil {
			w.res.Probe("fallback-to-group-on-node-delete")
		}
		if x != nil {
			want = append(want, x)
		}
	}
	got := w.got
	w.got = nil
	w.res.AddExtra("deliveries", len(got))
	w.logf("  %s -> delivered %v", strings.Join(why, "; "), got)
	w.res.State(sim.Hash64(w.m.node.String(), w.m.group.String(), w.m.last.String(), w.srv.group))
	for _, g := range got {
		w.res.Check("valid-only")
		if !g.Valid {
			w.res.Violate("C17", "valid-only", "C17 invalid-configuration-delivered "+kind, w.step, "a configuration failing validation was handed to the plugin: %s (events: %s)", g, strings.Join(why, "; "))
			return
		}
	}
	w.res.Check("delivered-equals-effective")
	// lenient where the statement is: falling back to the configuration that
	// is already the most recently delivered one may or may not notify again
	i := 0
	for _, x := range want {
		if i < len(got) && same(got[i], x) && got[i].Name == x.Name {
			w.m.last = x
			i++
			continue
		}
		if same(x, w.m.last) {
			continue
		}
		clause, sig := "delivered-equals-effective", "missing-delivery "+kind
		if i < len(got) {
			sig = "wrong-delivery " + kind
		}
		w.res.Violate("C17", clause, "C17 "+sig, w.step, "the plugin should have been handed %s, it got %v\nevents: %s\nagent: %s", x, got, strings.Join(why, "\n"), agent.VerifState(w.ag))
		return
	}
	if i < len(got) {
		sig := "unexpected-delivery " + kind
		for _, r := range why {
			if strings.Contains(r, "re-delivery") {
				sig = "redelivery-reconfigures " + kind
			} else if strings.Contains(r, "a node-specific configuration exists") {
				sig = "group-replaces-node-specific"
			}
		}
		w.res.Violate("C17", "delivered-equals-effective", "C17 "+sig, w.step, "the plugin was handed %v for which the events give no reason\nevents: %s\nagent: %s", got[i:], strings.Join(why, "\n"), agent.VerifState(w.ag))
	}
}

// checkQuiet: no delivery without an event.
func (w *world) checkQuiet(ctx string) {
	w.res.Check("no-spontaneous-delivery")
	if len(w.got) > 0 {
		w.res.Violate("C17", "no-spontaneous-delivery", "C17 spontaneous-delivery", w.step, "the plugin was handed %v although no watch event was released (%s)", w.got, ctx)
	}
	w.got = nil
}

// checkHealed: bounded liveness once faults stop: the agent watches exactly its
// node-specific resource and the group (or default) resource its node label
// names, and the plugin's configuration is the effective one.
func (w *world) checkHealed() {
	want := []string{"nodes", "node." + nodeName, "default"}
	if w.srv.group != "" {
		want[2] = "group." + w.srv.group
	}
	sort.Strings(want)
	got := w.srv.openStreams()
	w.res.Check("watches-healed")
	if strings.Join(got, ",") != strings.Join(want, ",") {
		w.res.Violate("C17", "watches-healed", "C17 watches-not-healed", w.step, "12 s after the last fault and a node event the agent watches %v, expected %v (agent: %s)", got, want, agent.VerifState(w.ag))
	}
	eff := w.m.node
	if eff == nil {
		eff = w.m.group
	}
	if eff != nil && eff.Valid {
		w.res.Check("effective-is-last-delivered")
		if !same(eff, w.m.last) {
			w.res.Violate("C17", "effective-is-last-delivered", "C17 effective-not-delivered", w.step, "at the end the configuration in effect is %s but the plugin last got %s", eff, w.m.last)
		}
	}
	_ = filepath.Join
}
