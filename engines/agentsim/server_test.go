package agentsim

import (
	"bytes"
	"encoding/json"
	"fmt"
	"io"
	"net/http"
	"os"
	"path/filepath"
	"sort"
	"strings"
	"sync"
)

// server is the simulated Kubernetes API server: one Node object, the
// BalloonsPolicy custom resources of one namespace, watch streams and the
// status sub-resource. It never writes to a stream by itself: events are
// queued per stream and released by the simulator.
type server struct {
	mu         sync.Mutex
	w          *world
	kubeconfig string
	rv         int
	uidSeq     int
	group      string // the node's group label value
	labelKey   int
	crs        map[string]*cr // by resource name
	streams    map[string]*stream
	failCreate int
	failPatch  int
	invalid    map[string]bool // uid/gen of versions that fail validation
}

type cr struct {
	name    string
	uid     string
	gen     int64
	invalid bool
	rv      int
	marker  int
}

type event struct {
	Type string
	ver  *ver
	raw  []byte
}

type stream struct {
	name   string // "nodes" or the custom resource name
	pw     *io.PipeWriter
	closed bool
	queue  []event
}

func newServer(dir string, w *world) *server {
	s := &server{w: w, crs: map[string]*cr{}, streams: map[string]*stream{}, invalid: map[string]bool{}}
	s.kubeconfig = filepath.Join(dir, "kubeconfig")
	kc := `apiVersion: v1
kind: Config
clusters:
- name: sim
  cluster:
    server: http://apiserver.sim
contexts:
- name: sim
  context:
    cluster: sim
    user: sim
current-context: sim
users:
- name: sim
  user:
    token: sim
`
	if err := os.WriteFile(s.kubeconfig, []byte(kc), 0o600); err != nil {
		panic(err)
	}
	return s
}

func crName(short string) string {
	if short == "node" {
		return "node." + nodeName
	}
	return short
}

var labelKeys = []string{"config.nri/group", "group.config.nri", "resource-policy.nri.io/group"}

func (s *server) nodeJSON() []byte {
	s.rv++
	labels := map[string]string{"kubernetes.io/hostname": nodeName}
	if s.group != "" {
		labels[labelKeys[s.labelKey]] = s.group
	}
	b, _ := json.Marshal(map[string]any{
		"apiVersion": "v1", "kind": "Node",
		"metadata": map[string]any{"name": nodeName, "uid": "node-uid", "resourceVersion": fmt.Sprint(s.rv), "labels": labels},
	})
	return b
}

func (c *cr) json() []byte {
	values := []string{fmt.Sprintf("m%d", c.marker)}
	if c.invalid {
		values = append(values, "second-value-makes-Equals-invalid")
	}
	b, _ := json.Marshal(map[string]any{
		"apiVersion": "config.nri/v1alpha1", "kind": "BalloonsPolicy",
		"metadata": map[string]any{"name": c.name, "namespace": namespace, "uid": c.uid, "generation": c.gen, "resourceVersion": fmt.Sprint(c.rv)},
		"spec": map[string]any{
			"reservedResources": map[string]any{"cpu": "1"},
			"balloonTypes": []any{map[string]any{"name": "b", "matchExpressions": []any{
				map[string]any{"key": "name", "operator": "Equals", "values": values}}}},
			"agent": map[string]any{"nodeResourceTopology": c.marker%2 == 0},
		},
	})
	return b
}

func (c *cr) ver() *ver {
	return &ver{Name: c.name, UID: c.uid, Gen: c.gen, Valid: !c.invalid}
}

func frame(typ string, obj []byte) []byte {
	return []byte(fmt.Sprintf(`{"type":%q,"object":%s}`+"\n", typ, obj))
}

func (s *server) enqueue(name, typ string, v *ver, obj []byte) {
	if st := s.streams[name]; st != nil && !st.closed {
		st.queue = append(st.queue, event{Type: typ, ver: v, raw: frame(typ, obj)})
	}
}

func (s *server) setNodeLabel(group string, key int) {
	s.mu.Lock()
	defer s.mu.Unlock()
	s.group, s.labelKey = group, key
	s.enqueue("nodes", "MODIFIED", nil, s.nodeJSON())
}

func (s *server) setCR(short string, invalid, recreate bool) {
	s.mu.Lock()
	defer s.mu.Unlock()
	name := crName(short)
	c := s.crs[name]
	if c != nil && recreate {
		delete(s.crs, name)
		s.rv++
		c.rv = s.rv
		s.enqueue(name, "DELETED", c.ver(), c.json())
		c = nil
	}
	typ := "MODIFIED"
	if c == nil {
		s.uidSeq++
		c = &cr{name: name, uid: fmt.Sprintf("uid-%d", s.uidSeq)}
		s.crs[name] = c
		typ = "ADDED"
	}
	c.gen++
	c.marker++
	c.invalid = invalid
	s.rv++
	c.rv = s.rv
	if invalid {
		s.invalid[fmt.Sprintf("%s/%d", c.uid, c.gen)] = true
		s.w.res.Fault("cr.invalid-spec")
	}
	s.enqueue(name, typ, c.ver(), c.json())
}

func (s *server) delCR(short string) {
	s.mu.Lock()
	defer s.mu.Unlock()
	name := crName(short)
	c := s.crs[name]
	if c == nil {
		return
	}
	delete(s.crs, name)
	s.rv++
	c.rv = s.rv
	s.enqueue(name, "DELETED", c.ver(), c.json())
}

// touchCR: a change that does not bump the generation (metadata, status).
func (s *server) touchCR(short string) {
	s.mu.Lock()
	defer s.mu.Unlock()
	s.touchLocked(crName(short))
}

func (s *server) touchLocked(name string) {
	c := s.crs[name]
	if c == nil {
		return
	}
	s.rv++
	c.rv = s.rv
	s.w.res.Fault("cr.same-generation-modified")
	s.enqueue(name, "MODIFIED", c.ver(), c.json())
}

func (s *server) dropQueued() {
	s.mu.Lock()
	defer s.mu.Unlock()
	for _, st := range s.streams {
		st.queue = nil
	}
}

func (s *server) pendingStreams() []string {
	s.mu.Lock()
	defer s.mu.Unlock()
	var out []string
	for n, st := range s.streams {
		if !st.closed && len(st.queue) > 0 {
			out = append(out, n)
		}
	}
	sort.Strings(out)
	return out
}

func (s *server) openStreams() []string {
	s.mu.Lock()
	defer s.mu.Unlock()
	var out []string
	for n, st := range s.streams {
		if !st.closed {
			out = append(out, n)
		}
	}
	sort.Strings(out)
	return out
}

// release writes up to k queued events of the stream to the wire.
func (s *server) release(name string, k int) []event {
	s.mu.Lock()
	st := s.streams[name]
	if st == nil || st.closed {
		s.mu.Unlock()
		return nil
	}
	if k > len(st.queue) {
		k = len(st.queue)
	}
	evs := st.queue[:k]
	st.queue = st.queue[k:]
	pw := st.pw
	s.mu.Unlock()
	var sent []event
	for _, ev := range evs {
		if _, err := pw.Write(ev.raw); err != nil {
			break // the agent closed the watch: the rest is lost
		}
		sent = append(sent, ev)
	}
	return sent
}

func (s *server) streamByRole(role string) *stream {
	for n, st := range s.streams {
		if st.closed {
			continue
		}
		if kindOfStream(n) == role || (role == "nodes" && n == "nodes") {
			return st
		}
	}
	return nil
}

// expire ends a watch stream the way the API server does after its timeout.
func (s *server) expire(role string) bool {
	s.mu.Lock()
	st := s.streamByRole(role)
	if st == nil {
		s.mu.Unlock()
		return false
	}
	st.closed = true
	st.queue = nil
	pw := st.pw
	s.mu.Unlock()
	pw.Close()
	return true
}

// sendError sends an ERROR event (410 Gone) down a watch stream.
func (s *server) sendError(role string) bool {
	s.mu.Lock()
	st := s.streamByRole(role)
	if st == nil {
		s.mu.Unlock()
		return false
	}
	st.queue = nil
	pw := st.pw
	s.mu.Unlock()
	raw := frame("ERROR", []byte(`{"kind":"Status","apiVersion":"v1","metadata":{},"status":"Failure","message":"too old resource version","reason":"Expired","code":410}`))
	_, err := pw.Write(raw)
	return err == nil
}

func (s *server) closeAll() {
	s.mu.Lock()
	var pws []*io.PipeWriter
	for _, st := range s.streams {
		if !st.closed {
			st.closed = true
			pws = append(pws, st.pw)
		}
	}
	s.mu.Unlock()
	for _, pw := range pws {
		pw.Close()
	}
}

// ---------------------------------------------------------------------------
// http.RoundTripper

type body struct {
	*io.PipeReader
	s  *server
	st *stream
}

func (b *body) Close() error {
	b.s.mu.Lock()
	b.st.closed = true
	b.st.queue = nil
	b.s.mu.Unlock()
	return b.PipeReader.Close()
}

func respond(req *http.Request, code int, payload []byte) *http.Response {
	return &http.Response{
		StatusCode: code, Status: fmt.Sprintf("%d %s", code, http.StatusText(code)),
		Proto: "HTTP/1.1", ProtoMajor: 1, ProtoMinor: 1,
		Header:  http.Header{"Content-Type": []string{"application/json"}},
		Body:    io.NopCloser(bytes.NewReader(payload)),
		Request: req, ContentLength: int64(len(payload)),
	}
}

func status(code int, reason, msg string) []byte {
	b, _ := json.Marshal(map[string]any{"kind": "Status", "apiVersion": "v1", "metadata": map[string]any{}, "status": "Failure", "message": msg, "reason": reason, "code": code})
	return b
}

func (s *server) RoundTrip(req *http.Request) (*http.Response, error) {
	q := req.URL.Query()
	path := req.URL.Path
	crPrefix := "/apis/config.nri/v1alpha1/namespaces/" + namespace + "/balloonspolicies"
	switch {
	case req.Method == "GET" && q.Get("watch") == "true" && (path == "/api/v1/nodes" || path == crPrefix):
		name := strings.TrimPrefix(q.Get("fieldSelector"), "metadata.name=")
		key := name
		if path == "/api/v1/nodes" {
			key = "nodes"
		}
		s.mu.Lock()
		if s.failCreate > 0 {
			s.failCreate--
			s.w.res.Fault("watch.create-refused")
			s.mu.Unlock()
			return respond(req, 503, status(503, "ServiceUnavailable", "simulated: apiserver is not ready")), nil
		}
		if old := s.streams[key]; old != nil && !old.closed {
			// the agent opened a second watch on the same resource without
			// closing the first one: keep serving only the new one
			old.closed = true
			old.queue = nil
			defer old.pw.Close()
			s.w.res.Probe("watch-replaced-without-close")
		}
		pr, pw := io.Pipe()
		st := &stream{name: key, pw: pw}
		s.streams[key] = st
		// "get state and start at most recent": synthetic ADDED
		if key == "nodes" {
			if name == nodeName {
				st.queue = append(st.queue, event{Type: "ADDED", raw: frame("ADDED", s.nodeJSON())})
			}
		} else if c := s.crs[name]; c != nil {
			st.queue = append(st.queue, event{Type: "ADDED", ver: c.ver(), raw: frame("ADDED", c.json())})
		}
		s.w.res.AddExtra("watch-opened", 1)
		s.mu.Unlock()
		resp := respond(req, 200, nil)
		resp.Body = &body{PipeReader: pr, s: s, st: st}
		resp.ContentLength = -1
		resp.Header.Set("Transfer-Encoding", "chunked")
		return resp, nil
	case req.Method == "PATCH" && strings.HasPrefix(path, crPrefix+"/") && strings.HasSuffix(path, "/status"):
		name := strings.TrimSuffix(strings.TrimPrefix(path, crPrefix+"/"), "/status")
		if req.Body != nil {
			io.Copy(io.Discard, req.Body)
			req.Body.Close()
		}
		s.mu.Lock()
		defer s.mu.Unlock()
		s.w.res.AddExtra("status-patches", 1)
		if s.failPatch > 0 {
			s.failPatch--
			s.w.res.Fault("status-patch.refused")
			return respond(req, 500, status(500, "InternalError", "simulated: etcd timeout")), nil
		}
		c := s.crs[name]
		if c == nil {
			return respond(req, 404, status(404, "NotFound", "balloonspolicies.config.nri \""+name+"\" not found")), nil
		}
		// the patch changes the status only: new resourceVersion, same
		// generation, and every watcher of the resource sees a MODIFIED
		s.touchLocked(name)
		return respond(req, 200, c.json()), nil
	}
	s.w.res.AddExtra("unexpected-request", 1)
	return respond(req, 404, status(404, "NotFound", "simulated apiserver: no such path "+req.Method+" "+req.URL.String())), nil
}
