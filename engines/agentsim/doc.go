// Package agentsim is engine E4: the real configuration agent (pkg/agent:
// Agent.Start loop, updateNodeConfig/updateGroupConfig/updateConfig, status
// patching, pkg/agent/watch.ObjectWatch with its re-open logic), the real
// generated clientset and the real client-go/kubernetes clientsets, against a
// simulated Kubernetes API server behind the http.RoundTripper seam
// (verifrt/agentnet, substituted for rest.HTTPClientFor by verifgen).
//
// Each run executes inside a testing/synctest bubble (go1.26.8): time is the
// bubble's fake clock, and the simulator advances only when every goroutine of
// the agent is durably blocked. The server never writes a watch event on its
// own: every event (including the synthetic ADDED of a newly opened watch and
// the MODIFIED caused by the agent's own status patches) is queued per stream
// and released one at a time by the seeded scheduler, so the order in which
// the agent's select loop sees the node, node-config and group-config streams
// is decided by the run seed and nothing else.
//
// It is a test binary because testing/synctest needs a *testing.T.
package agentsim
