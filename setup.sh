#!/bin/bash
# Builds the framework from files on disk only (offline).
cd /verif || exit 1
export GOFLAGS=-mod=mod GOPROXY=off GOSUMDB=off GOTOOLCHAIN=local CGO_ENABLED=0
mkdir -p bin evidence replays
go build -o bin/driver ./cmd/driver || exit 1
(cd verifgen && go build -o ../bin/verifgen .) || exit 1
echo "setup ok"
