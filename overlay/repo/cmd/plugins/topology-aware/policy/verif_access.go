//go:build verif

package topologyaware

import (
	"sort"

	"github.com/containers/nri-plugins/pkg/cpuallocator"
	libmem "github.com/containers/nri-plugins/pkg/resmgr/lib/memory"
	policyapi "github.com/containers/nri-plugins/pkg/resmgr/policy"
)

// Read-only snapshot of pools and grants for the verification harness
// (build tag verif, injected through -overlay; not part of the repository).

type VerifPool struct {
	Name, Parent, Kind                       string
	Depth                                    int
	Children                                 []string
	Isolated, Reserved, Sharable             string // total supply
	FreeIsolated, FreeReserved, FreeSharable string // free supply
	GrantedShared, GrantedReserved           int    // this pool's own ledger
	SubtreeShared, SubtreeReserved           int    // node.GrantedSharedCPU()/GrantedReservedCPU()
	AllocatableShared                        int
	MemDRAM, MemPMEM, MemHBM                 []int
}

type VerifGrant struct {
	Container, Pool                       string
	CPUType                               string
	Exclusive, Isolated, Reserved, Shared string
	Portion, ReservedPortion, SharedPortion int
	MemZone                               string
	MemZoneMask                           uint64
	MemType                               int
	MemSize                               int64
	ColdStart                             int64
}

type VerifSnap struct {
	Pools                      []VerifPool
	Grants                     []VerifGrant
	Allowed, Reserved, Isolated string
	ReserveCnt                 int
	Root                       string
	PinCPU, PinMemory          bool
}

func ids(s interface{ SortedMembers() []int }) []int { return s.SortedMembers() }

func VerifSnapshot(b policyapi.Backend) *VerifSnap {
	p, ok := b.(*policy)
	if !ok || p.root == nil {
		return nil
	}
	s := &VerifSnap{
		Allowed: p.allowed.String(), Reserved: p.reserved.String(), Isolated: p.isolated.String(),
		ReserveCnt: p.reserveCnt, Root: p.root.Name(), PinCPU: opt.PinCPU, PinMemory: opt.PinMemory,
	}
	for _, n := range p.pools {
		vp := VerifPool{Name: n.Name(), Kind: string(n.Kind()), Depth: n.RootDistance()}
		if !n.IsRootNode() {
			vp.Parent = n.Parent().Name()
		}
		for _, c := range n.Children() {
			vp.Children = append(vp.Children, c.Name())
		}
		sort.Strings(vp.Children)
		t, f := n.GetSupply(), n.FreeSupply()
		vp.Isolated, vp.Reserved, vp.Sharable = t.IsolatedCPUs().String(), t.ReservedCPUs().String(), t.SharableCPUs().String()
		vp.FreeIsolated, vp.FreeReserved, vp.FreeSharable = f.IsolatedCPUs().String(), f.ReservedCPUs().String(), f.SharableCPUs().String()
		vp.GrantedShared, vp.GrantedReserved = f.GrantedShared(), f.GrantedReserved()
		vp.SubtreeShared, vp.SubtreeReserved = n.GrantedSharedCPU(), n.GrantedReservedCPU()
		vp.AllocatableShared = f.AllocatableSharedCPU()
		vp.MemDRAM = ids(n.GetMemset(memoryDRAM))
		vp.MemPMEM = ids(n.GetMemset(memoryPMEM))
		vp.MemHBM = ids(n.GetMemset(memoryHBM))
		s.Pools = append(s.Pools, vp)
	}
	for id, g := range p.allocations.grants {
		vg := VerifGrant{
			Container: id, Pool: g.GetCPUNode().Name(), CPUType: g.CPUType().String(),
			Exclusive: g.ExclusiveCPUs().String(), Isolated: g.IsolatedCPUs().String(),
			Reserved: g.ReservedCPUs().String(), Shared: g.SharedCPUs().String(),
			Portion: g.CPUPortion(), ReservedPortion: g.ReservedPortion(), SharedPortion: g.SharedPortion(),
			MemZone: g.GetMemoryZone().MemsetString(), MemZoneMask: uint64(g.GetMemoryZone()),
			MemType: int(g.MemoryType()), MemSize: g.GetMemorySize(), ColdStart: int64(g.ColdStart()),
		}
		s.Grants = append(s.Grants, vg)
	}
	sort.Slice(s.Grants, func(i, j int) bool { return s.Grants[i].Container < s.Grants[j].Container })
	return s
}

func VerifMemAllocator(b policyapi.Backend) *libmem.Allocator {
	if p, ok := b.(*policy); ok {
		return p.memAllocator
	}
	return nil
}

// VerifWrapCPUAllocator installs a decorator around the policy's CPU allocator
// interface field (C08 monitor).
func VerifWrapCPUAllocator(b policyapi.Backend, wrap func(cpuallocator.CPUAllocator) cpuallocator.CPUAllocator) {
	if p, ok := b.(*policy); ok && p.cpuAllocator != nil {
		p.cpuAllocator = wrap(p.cpuAllocator)
	}
}

// VerifResetGlobals resets the package-level state a fresh process would
// start with (one simulated incarnation = one process).
func VerifResetGlobals() {
	coldStartOff = false
}
