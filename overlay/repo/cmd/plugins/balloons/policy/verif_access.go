//go:build verif

package balloons

import (
	"sort"

	"github.com/containers/nri-plugins/pkg/cpuallocator"
	libmem "github.com/containers/nri-plugins/pkg/resmgr/lib/memory"
	policyapi "github.com/containers/nri-plugins/pkg/resmgr/policy"
)

// Read-only snapshot for the verification harness (build tag verif, injected
// through -overlay; not part of the repository).

type VerifBalloon struct {
	Def            string
	Instance       int
	Cpus           string
	SharedIdleCpus string
	Mems           []int
	Members        map[string][]string // pod id -> container ids
	MinCpus        int
	MaxCpus        int
	MinBalloons    int
	MaxBalloons    int
	HideHT         bool
	PinMemory      *bool
	ShareIdle      string
	CpuClass       string
}

type VerifSnap struct {
	Balloons          []VerifBalloon
	FreeCpus          string
	Allowed           string
	Reserved          string
	IdleCpuClass      string
	PinCPU, PinMemory bool
}

func VerifSnapshot(b policyapi.Backend) *VerifSnap {
	p, ok := b.(*balloons)
	if !ok || p.bpoptions == nil {
		return nil
	}
	s := &VerifSnap{
		FreeCpus: p.freeCpus.String(), Allowed: p.allowed.String(), Reserved: p.reserved.String(),
		IdleCpuClass: p.bpoptions.IdleCpuClass,
		PinCPU:       p.bpoptions.PinCPU == nil || *p.bpoptions.PinCPU,
		PinMemory:    p.bpoptions.PinMemory == nil || *p.bpoptions.PinMemory,
	}
	for _, bln := range p.balloons {
		vb := VerifBalloon{
			Def: bln.Def.Name, Instance: bln.Instance, Cpus: bln.Cpus.String(), SharedIdleCpus: bln.SharedIdleCpus.String(),
			Mems: bln.Mems.SortedMembers(), Members: map[string][]string{},
			MinCpus: bln.Def.MinCpus, MaxCpus: bln.Def.MaxCpus, MinBalloons: bln.Def.MinBalloons, MaxBalloons: bln.Def.MaxBalloons,
			HideHT: bln.Def.HideHyperthreads != nil && *bln.Def.HideHyperthreads, PinMemory: bln.Def.PinMemory,
			ShareIdle: string(bln.Def.ShareIdleCpusInSame), CpuClass: bln.Def.CpuClass,
		}
		for pod, ctrs := range bln.PodIDs {
			c := append([]string(nil), ctrs...)
			sort.Strings(c)
			vb.Members[pod] = c
		}
		s.Balloons = append(s.Balloons, vb)
	}
	return s
}

func VerifMemAllocator(b policyapi.Backend) *libmem.Allocator {
	if p, ok := b.(*balloons); ok {
		return p.memAllocator
	}
	return nil
}

func VerifWrapCPUAllocator(b policyapi.Backend, wrap func(cpuallocator.CPUAllocator) cpuallocator.CPUAllocator) {
	if p, ok := b.(*balloons); ok && p.cpuAllocator != nil {
		p.cpuAllocator = wrap(p.cpuAllocator)
	}
}
