//go:build verif

package metrics

import (
	"github.com/containers/nri-plugins/pkg/metrics"
)

// VerifEnableGatherer installs a metrics gatherer the way Start() does when
// the Prometheus exporter is enabled, without the HTTP side: from then on
// Block() really takes the gatherer's lock (it is a no-op without a gatherer).
func VerifEnableGatherer() error {
	g, err := metrics.NewGatherer(
		metrics.WithNamespace("verif"),
		metrics.WithPollInterval(0),
		metrics.WithMetrics(nil, nil),
	)
	if err != nil {
		return err
	}
	gatherer = g
	return nil
}

// VerifDisableGatherer removes it again.
func VerifDisableGatherer() { gatherer = nil }
