//go:build verif

package metrics

// VerifResetDefaultRegistry forgets the process-wide collector registry: a
// simulated plugin restart is a new process.
func VerifResetDefaultRegistry() { defaultRegistry = nil }
