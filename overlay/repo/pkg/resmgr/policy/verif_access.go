//go:build verif

package policy

// VerifBackend returns the active policy backend (harness accessor).
func VerifBackend(p Policy) Backend { return p.(*policy).active }
