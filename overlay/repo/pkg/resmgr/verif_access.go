//go:build verif

package resmgr

import (
	"sync"

	"github.com/containerd/nri/pkg/stub"

	"github.com/containers/nri-plugins/pkg/resmgr/cache"
	"github.com/containers/nri-plugins/pkg/resmgr/events"
	"github.com/containers/nri-plugins/pkg/resmgr/policy"
)

// Read-only accessors used by the verification harness (build tag verif,
// injected through -overlay; not part of the repository).

func VerifSetDirs(stateDir, hostRoot string) {
	opt.StateDir = stateDir
	opt.HostRoot = hostRoot
}

func VerifUpdateConfig(rm ResourceManager, cfg interface{}) (bool, error) {
	return rm.(*resmgr).updateConfig(cfg)
}

func VerifPlugin(rm ResourceManager) *nriPlugin { return rm.(*resmgr).nri }

func VerifCache(rm ResourceManager) cache.Cache { return rm.(*resmgr).cache }

func VerifPolicy(rm ResourceManager) policy.Policy { return rm.(*resmgr).policy }

func VerifStub(rm ResourceManager) stub.Stub { return rm.(*resmgr).nri.stub }

func VerifLock(rm ResourceManager) *sync.RWMutex { return &rm.(*resmgr).RWMutex }

func VerifStopEvents(rm ResourceManager) {
	m := rm.(*resmgr)
	if m.stop != nil {
		close(m.stop)
		m.stop = nil
	}
}

// VerifDeliverPolicyEvent plays the part of the event loop's policy-event
// delivery, which is commented out at this commit (processEvent drops
// *events.Policy): under the pipeline lock the event is handed to the policy
// and, if the policy reports changes, the pending updates are pushed.
func VerifDeliverPolicyEvent(rm ResourceManager, e *events.Policy) (bool, error) {
	m := rm.(*resmgr)
	m.Lock()
	defer m.Unlock()
	changes, err := m.policy.HandleEvent(e)
	if err != nil {
		return changes, err
	}
	if changes {
		return changes, m.nri.updateContainers()
	}
	return false, nil
}
