//go:build verif

package cpu

import "github.com/containers/nri-plugins/pkg/resmgr/cache"

// VerifAssignments returns the CPU class assignment entry stored in the cache
// (class -> sorted CPU ids), for the verification harness.
func VerifAssignments(c cache.Cache) map[string][]int {
	out := map[string][]int{}
	a := &cpuClassAssignments{}
	if !c.GetPolicyEntry(cacheKeyCPUAssignments, a) {
		return out
	}
	for class, ids := range *a {
		out[class] = ids.SortedMembers()
	}
	return out
}
