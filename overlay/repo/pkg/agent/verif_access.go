//go:build verif

package agent

import "fmt"

// VerifStop makes the Start loop return (it stops all watches on its way out)
// without waiting for it: Agent.Stop waits on a channel nobody ever creates.
func VerifStop(a *Agent) {
	a.stopLock.Lock()
	defer a.stopLock.Unlock()
	if a.stopC != nil {
		close(a.stopC)
		a.stopC = nil
	}
}

// VerifState renders the agent's idea of the node, group and current
// configuration, for state fingerprints and failure reports.
func VerifState(a *Agent) string {
	d := func(o interface {
		GetName() string
		GetGeneration() int64
	}) string {
		return fmt.Sprintf("%s@%d", o.GetName(), o.GetGeneration())
	}
	s := "group=" + a.group
	if a.nodeCfg != nil {
		s += " node=" + d(a.nodeCfg)
	}
	if a.groupCfg != nil {
		s += " groupcfg=" + d(a.groupCfg)
	}
	if a.currentCfg != nil {
		s += " current=" + d(a.currentCfg)
	}
	return s
}
