// driver is the check orchestrator: it instruments /repo's current working
// tree (verifgen overlay, /repo is never written), builds the engine, runs
// seeded simulated runs on all cores, minimises and re-verifies every candidate
// violation in a fresh process, matches known findings, writes the evidence
// file and sets the exit code (0 held, 1 violation, 2 harness/build trouble).
package main

import (
	"bufio"
	"crypto/sha256"
	"encoding/hex"
	"encoding/json"
	"flag"
	"fmt"
	"io"
	"os"
	"os/exec"
	"path/filepath"
	"runtime"
	"sort"
	"strconv"
	"strings"
	"sync"
	"time"
)

// verifDir is the directory of the harness: /verif, or a snapshot of it (the
// check script changes into its own directory before starting the driver).
var verifDir = "/verif"

// repoDir is /repo. VERIF_REPO points the driver at a scratch copy instead (to
// try a seeded change or run a long sweep without touching /repo); evidence and
// replays of such runs go to outDir, never to /verif/evidence.
var (
	repoDir = "/repo"
	outDir  = verifDir
	altRepo = false
)

func init() {
	if wd, err := os.Getwd(); err == nil {
		if _, err := os.Stat(filepath.Join(wd, "cmd", "driver", "main.go")); err == nil {
			verifDir, outDir = wd, wd
		}
	}
	if d := os.Getenv("VERIF_REPO"); d != "" && d != "/repo" {
		repoDir, altRepo = filepath.Clean(d), true
		outDir = os.Getenv("VERIF_OUT")
		if outDir == "" {
			outDir = "/var/tmp/verif-alt-out"
		}
	}
}

type propCfg struct {
	Extra       []string // further engines that serve the same property (their runs are added)
	Engine      string
	GoBin       string // "" = default go; "go1.26.8" for the synctest engine
	TestPkg     string // non-empty: engine is a `go test -c` binary of this package (of /repo, or of /verif when it starts with ./engines/)
	Level       string
	QuickRuns   int
	ThorRuns    int
	QuickSecs   int // wall budget for the run phase
	ThorSecs    int
	FaultModes  []bool // batches: fault-free and/or fault-injecting
	Rule        string
	Assumptions []string
}

var props = map[string]*propCfg{}

func reg(id string, c *propCfg) { props[id] = c }

type violation struct {
	Property  string `json:"property"`
	Clause    string `json:"clause"`
	Signature string `json:"signature"`
	Detail    string `json:"detail"`
	Step      int    `json:"step"`
}

type runResult struct {
	Seed       uint64          `json:"seed"`
	Index      int             `json:"index"`
	Ops        int             `json:"ops"`
	Faults     map[string]int  `json:"faults"`
	Probes     map[string]int  `json:"probes"`
	Checks     map[string]int  `json:"checks"`
	States     []uint64        `json:"states"`
	Nontrivial bool            `json:"nontrivial"`
	SimSeconds float64         `json:"sim_s"`
	Digest     string          `json:"digest"`
	Violations []violation     `json:"violations"`
	Sample     json.RawMessage `json:"sample"`
	Extra      map[string]int  `json:"extra"`
}

type workerOut struct {
	Result *runResult      `json:"result"`
	Replay json.RawMessage `json:"replay"`
	Error  string          `json:"error"`
	Hang   bool            `json:"hang"`
	Index  int             `json:"index"`
}

type knownFinding struct {
	Property  string `json:"property"`
	Signature string `json:"signature"`
	// Contains, if set instead of Signature, matches every signature of the
	// property that carries this cause label (the oracle's classifier puts
	// exactly one cause label into a signature).
	Contains string `json:"contains,omitempty"`
	Status   string `json:"status"` // known | fixed
	Commit   string `json:"commit,omitempty"`
	What     string `json:"what"`
}

func die(code int, format string, a ...any) {
	fmt.Fprintf(os.Stderr, "check: "+format+"\n", a...)
	os.Exit(code)
}

func goEnv() []string {
	env := os.Environ()
	env = append(env, "GOFLAGS=-mod=mod", "GOPROXY=off", "GOSUMDB=off", "GOTOOLCHAIN=local", "CGO_ENABLED=0")
	return env
}

// treeHash hashes every .go file, go.mod and go.sum of /repo (working tree)
// plus /verif's own sources: the cache key for generated sources and binaries.
func treeHash() string {
	h := sha256.New()
	add := func(root string, skip func(string) bool) {
		filepath.Walk(root, func(path string, info os.FileInfo, err error) error {
			if err != nil {
				return nil
			}
			if info.IsDir() {
				n := info.Name()
				if n == ".git" || n == "node_modules" || (skip != nil && skip(path)) {
					return filepath.SkipDir
				}
				return nil
			}
			if strings.HasSuffix(path, ".go") || strings.HasSuffix(path, "go.mod") || strings.HasSuffix(path, "go.sum") || strings.HasSuffix(path, "subst.json") {
				b, err := os.ReadFile(path)
				if err == nil {
					fmt.Fprintf(h, "%s %d\n", path, len(b))
					h.Write(b)
				}
			}
			return nil
		})
	}
	add(repoDir, func(p string) bool {
		return strings.HasPrefix(p, repoDir+"/docs") || strings.HasPrefix(p, repoDir+"/test/e2e")
	})
	add(verifDir, func(p string) bool {
		return strings.HasPrefix(p, verifDir+"/evidence") || strings.HasPrefix(p, verifDir+"/replays") || strings.HasPrefix(p, verifDir+"/seeded") || strings.HasPrefix(p, verifDir+"/bin")
	})
	return hex.EncodeToString(h.Sum(nil))[:16]
}

func cacheRoot() string {
	if d := os.Getenv("VERIF_CACHE"); d != "" {
		return d
	}
	if altRepo {
		return "/var/tmp/verif-cache-alt"
	}
	return "/var/tmp/verif-cache"
}

func run(dir string, env []string, name string, args ...string) ([]byte, error) {
	cmd := exec.Command(name, args...)
	cmd.Dir = dir
	cmd.Env = env
	return cmd.CombinedOutput()
}

// prepare instruments and builds; returns the engine binary path.
func prepare(pc0 *propCfg, engineName string) string {
	pcCopy := *pc0
	pcCopy.Engine = engineName
	pc := &pcCopy
	key := treeHash()
	root := cacheRoot()
	dir := filepath.Join(root, key)
	os.MkdirAll(dir, 0o755)
	lock := filepath.Join(dir, ".lock")
	// simple inter-process lock so that concurrent checks share one build
	for i := 0; ; i++ {
		f, err := os.OpenFile(lock, os.O_CREATE|os.O_EXCL|os.O_WRONLY, 0o644)
		if err == nil {
			f.Close()
			break
		}
		if st, err := os.Stat(lock); err == nil && time.Since(st.ModTime()) > 15*time.Minute {
			os.Remove(lock)
			continue
		}
		time.Sleep(500 * time.Millisecond)
		if i > 3600 {
			die(2, "timed out waiting for build lock %s", lock)
		}
	}
	defer os.Remove(lock)
	env := goEnv()
	gen := filepath.Join(dir, "gen")
	if _, err := os.Stat(filepath.Join(gen, ".done")); err != nil {
		vg := filepath.Join(dir, "verifgen")
		if out, err := run(filepath.Join(verifDir, "verifgen"), env, "go", "build", "-o", vg, "."); err != nil {
			die(2, "building verifgen failed: %v\n%s", err, out)
		}
		os.RemoveAll(gen)
		args := []string{"-repo", repoDir, "-out", gen, "-overlay", filepath.Join(verifDir, "overlay"),
			"-pkgs", "./pkg/...,./cmd/plugins/...", "-subst", filepath.Join(verifDir, "verifgen", "subst.json"),
			"-sync", "./pkg/resmgr,./pkg/resmgr/cache,./pkg/metrics",
			"-touch", "pkg/resmgr/cache:cache:cache,pkg/resmgr/cache:pod:cache,pkg/resmgr/cache:container:cache,pkg/resmgr/policy:policy:policy",
			"-transplant", "cmd/plugins/memory-qos/main.go:" + verifDir + "/engines/annsim/memqos/plugin_gen.go:memqos," +
				"cmd/plugins/memtierd/main.go:" + verifDir + "/engines/annsim/memtierd/plugin_gen.go:memtierd," +
				"cmd/plugins/sgx-epc/sgx-epc.go:" + verifDir + "/engines/annsim/sgxepc/plugin_gen.go:sgxepc"}
		if out, err := run(verifDir, env, vg, args...); err != nil {
			die(2, "verifgen failed (instrumentation trouble, not a verdict): %v\n%s", err, out)
		}
		if err := os.WriteFile(filepath.Join(gen, ".done"), []byte("ok"), 0o644); err != nil {
			die(2, "%v", err)
		}
	}
	modArgs := []string{}
	if altRepo {
		// the harness module replaces nri-plugins by /repo: an alternate go.mod
		// (and go.sum next to it) points it at the scratch copy
		b, err := os.ReadFile(filepath.Join(verifDir, "go.mod"))
		if err != nil {
			die(2, "%v", err)
		}
		alt := strings.ReplaceAll(string(b), "=> /repo", "=> "+repoDir)
		sum, _ := os.ReadFile(filepath.Join(verifDir, "go.sum"))
		os.WriteFile(filepath.Join(dir, "alt.mod"), []byte(alt), 0o644)
		os.WriteFile(filepath.Join(dir, "alt.sum"), sum, 0o644)
		modArgs = []string{"-modfile=" + filepath.Join(dir, "alt.mod")}
	}
	bin := filepath.Join(dir, "bin-"+pc.Engine)
	if _, err := os.Stat(bin); err != nil {
		gobin := "go"
		if pc.GoBin != "" {
			gobin = pc.GoBin
		}
		var out []byte
		var err error
		start := time.Now()
		if pc.TestPkg != "" {
			wd := repoDir
			if strings.HasPrefix(pc.TestPkg, "./engines/") {
				wd = verifDir // a harness test package (testing/synctest needs a *testing.T)
			}
			a := append([]string{"test", "-c"}, modArgs...)
			a = append(a, "-tags", "verif", "-vet=off", "-overlay", filepath.Join(gen, "overlay.json"), "-o", bin+".tmp", pc.TestPkg)
			out, err = run(wd, env, gobin, a...)
		} else {
			a := append([]string{"build"}, modArgs...)
			a = append(a, "-tags", "verif", "-overlay", filepath.Join(gen, "overlay.json"), "-o", bin+".tmp", "./engines/"+pc.Engine)
			out, err = run(verifDir, env, gobin, a...)
		}
		if err != nil {
			die(2, "building engine %s failed (build trouble, not a verdict): %v\n%s", pc.Engine, err, out)
		}
		os.Rename(bin+".tmp", bin)
		fmt.Fprintf(os.Stderr, "check: built engine %s in %.1fs\n", pc.Engine, time.Since(start).Seconds())
	}
	// keep at most two generations
	if ents, err := os.ReadDir(root); err == nil && len(ents) > 2 {
		type gen struct {
			name string
			t    time.Time
		}
		var gs []gen
		for _, e := range ents {
			if e.Name() == key {
				continue
			}
			if info, err := e.Info(); err == nil {
				gs = append(gs, gen{e.Name(), info.ModTime()})
			}
		}
		sort.Slice(gs, func(i, j int) bool { return gs[i].t.After(gs[j].t) })
		for i, g := range gs {
			// scratch-copy runs (VERIF_REPO) may be long sweeps running side by
			// side: their generations are evicted by age, not by count
			if altRepo {
				if time.Since(g.t) > 4*time.Hour {
					os.RemoveAll(filepath.Join(root, g.name))
				}
				continue
			}
			if i >= 1 {
				os.RemoveAll(filepath.Join(root, g.name))
			}
		}
	}
	os.Chtimes(dir, time.Now(), time.Now())
	return bin
}

type batch struct {
	bin     string
	faults  bool
	results []*runResult
	replays map[int]json.RawMessage // run index -> replay
	hangs   []json.RawMessage
	errors  []string
}

func runBatch(bin, prop, tier string, seed uint64, faults bool, runs int, budget time.Duration, scratch string) *batch {
	nw := runtime.NumCPU()
	if s := os.Getenv("VERIF_WORKERS"); s != "" {
		if n, err := strconv.Atoi(s); err == nil && n > 0 {
			nw = n
		}
	}
	if nw > runs {
		nw = runs
	}
	b := &batch{faults: faults, replays: map[int]json.RawMessage{}}
	var mu sync.Mutex
	var wg sync.WaitGroup
	start := time.Now()
	for w := 0; w < nw; w++ {
		wg.Add(1)
		go func(w int) {
			defer wg.Done()
			from := w
			retried := map[int]bool{}
			for attempt := 0; from < runs; attempt++ {
				left := budget - time.Since(start)
				if left <= 0 {
					return
				}
				out := filepath.Join(scratch, fmt.Sprintf("w%d-%v-%d.jsonl", w, faults, attempt))
				args := []string{"-prop", prop, "-tier", tier, "-seed", strconv.FormatUint(seed, 10),
					"-from", strconv.Itoa(from), "-to", strconv.Itoa(runs), "-stride", strconv.Itoa(nw),
					"-out", out, "-deadline", left.String()}
				if faults {
					args = append(args, "-faults")
				}
				cmd := exec.Command(bin, args...)
				cmd.Env = append(os.Environ(), "GOMAXPROCS=2", "TMPDIR="+scratch)
				stderrTail := &tailBuf{}
				cmd.Stderr = stderrTail
				cmd.Stdout = io.Discard
				done := make(chan error, 1)
				err := cmd.Start()
				for try := 0; err != nil && try < 3; try++ {
					// transient (ETXTBSY right after the build, fork pressure)
					time.Sleep(time.Second)
					cmd = exec.Command(bin, args...)
					cmd.Env = append(os.Environ(), "GOMAXPROCS=2", "TMPDIR="+scratch)
					cmd.Stderr = stderrTail
					cmd.Stdout = io.Discard
					err = cmd.Start()
				}
				if err != nil {
					mu.Lock()
					b.errors = append(b.errors, err.Error())
					mu.Unlock()
					return
				}
				go func() { done <- cmd.Wait() }()
				var werr error
				select {
				case werr = <-done:
				case <-time.After(left + 90*time.Second):
					cmd.Process.Kill()
					werr = fmt.Errorf("worker killed by watchdog")
					<-done
				}
				last := from - nw
				f, err := os.Open(out)
				if err == nil {
					sc := bufio.NewScanner(f)
					sc.Buffer(make([]byte, 1<<20), 1<<28)
					for sc.Scan() {
						var o workerOut
						if json.Unmarshal(sc.Bytes(), &o) != nil {
							continue
						}
						mu.Lock()
						if o.Hang {
							b.hangs = append(b.hangs, o.Replay)
							if st, err := os.ReadFile(out + ".stacks"); err == nil {
								os.MkdirAll(filepath.Join(outDir, "replays", prop), 0o755)
								os.WriteFile(filepath.Join(outDir, "replays", prop, fmt.Sprintf("hang-stacks-%d.txt", len(b.hangs))), st, 0o644)
								os.Remove(out + ".stacks")
							}
						} else if o.Error != "" {
							b.errors = append(b.errors, o.Error)
						} else if o.Result != nil {
							b.results = append(b.results, o.Result)
							if len(o.Replay) > 0 && string(o.Replay) != "null" {
								b.replays[o.Index] = o.Replay
							}
						}
						mu.Unlock()
						last = o.Index
					}
					f.Close()
					os.Remove(out)
				}
				code := 0
				if werr != nil {
					if ee, ok := werr.(*exec.ExitError); ok {
						code = ee.ExitCode()
					} else {
						code = -1
					}
				}
				if code == 0 {
					return
				}
				if code != 5 {
					// the worker process itself died (a Go runtime fatal error or
					// a panic outside the run's own goroutine). Once per run index
					// the run is repeated in a fresh process before this counts as
					// trouble: noted on stderr and in the evidence either way.
					if r := last + nw; !retried[r] {
						retried[r] = true
						mu.Lock()
						workerCrashRetries++
						mu.Unlock()
						fmt.Fprintf(os.Stderr, "check: worker %d exited with %v at run %d; repeating that run once in a fresh process; end of its stderr:\n%s\n", w, werr, r, stderrTail.String())
						from = r
						continue
					}
					mu.Lock()
					b.errors = append(b.errors, fmt.Sprintf("worker %d exited with %v after run %d, twice; end of its stderr:\n%s", w, werr, last, stderrTail.String()))
					mu.Unlock()
				}
				from = last + nw // skip the run that hung/crashed
				if attempt > 20 {
					return
				}
			}
		}(w)
	}
	wg.Wait()
	sort.Slice(b.results, func(i, j int) bool { return b.results[i].Index < b.results[j].Index })
	return b
}

// workerCrashRetries counts worker processes that died and whose run was
// repeated (see runBatch); reported in the evidence.
var workerCrashRetries int

// tailBuf keeps the last few kilobytes written to it (a crashing worker's
// stderr: the Go runtime's fatal error or panic message).
type tailBuf struct {
	mu sync.Mutex
	b  []byte
}

func (t *tailBuf) Write(p []byte) (int, error) {
	t.mu.Lock()
	defer t.mu.Unlock()
	t.b = append(t.b, p...)
	if len(t.b) > 6000 {
		t.b = t.b[len(t.b)-6000:]
	}
	return len(p), nil
}

func (t *tailBuf) String() string {
	t.mu.Lock()
	defer t.mu.Unlock()
	return string(t.b)
}

func loadKnown() []knownFinding {
	var k []knownFinding
	b, err := os.ReadFile(filepath.Join(verifDir, "known-findings.json"))
	if err != nil {
		return nil
	}
	if err := json.Unmarshal(b, &k); err != nil {
		die(2, "known-findings.json: %v", err)
	}
	return k
}

func matchOne(e *knownFinding, prop, sig string) bool {
	if e.Status != "known" || e.Property != prop {
		return false
	}
	if e.Contains != "" {
		return strings.Contains(sig, e.Contains)
	}
	return e.Signature == sig
}

func matchKnown(k []knownFinding, prop, sig string) *knownFinding {
	for i := range k {
		if matchOne(&k[i], prop, sig) {
			return &k[i]
		}
	}
	// C11 and C13 re-evaluate the invariants of C01-C05 on their own
	// histories and file them as "<prop> Cxx <signature of Cxx>": a known
	// finding of the origin property is the same known finding there.
	if rest := strings.TrimPrefix(sig, prop+" "); rest != sig && len(rest) > 4 && rest[0] == 'C' && rest[3] == ' ' {
		origin := rest[:3]
		for i := range k {
			if matchOne(&k[i], origin, origin+" "+rest[4:]) {
				return &k[i]
			}
		}
	}
	return nil
}

func main() {
	var (
		tier   = flag.String("tier", "", "quick|thorough")
		replay = flag.String("replay", "", "replay file")
	)
	flag.Usage = func() { fmt.Fprintln(os.Stderr, "usage: check <property> [--tier quick|thorough] [--replay file]") }
	if len(os.Args) < 2 {
		flag.Usage()
		os.Exit(2)
	}
	prop := os.Args[1]
	flag.CommandLine.Parse(os.Args[2:])
	if *tier == "" {
		*tier = os.Getenv("VERIF_TIER")
	}
	if *tier == "" {
		*tier = "quick"
	}
	if *tier != "quick" && *tier != "thorough" {
		die(2, "unknown tier %q", *tier)
	}
	pc, ok := props[prop]
	if !ok {
		die(2, "unknown property %q", prop)
	}
	seed := uint64(20240917)
	if s := os.Getenv("VERIF_SEED"); s != "" {
		v, err := strconv.ParseUint(s, 10, 64)
		if err != nil {
			if iv, err2 := strconv.ParseInt(s, 10, 64); err2 == nil {
				v = uint64(iv)
			} else {
				die(2, "bad VERIF_SEED %q", s)
			}
		}
		seed = v
	}
	start := time.Now()
	engines := append([]string{pc.Engine}, pc.Extra...)
	bins := map[string]string{}
	for _, e := range engines {
		bins[e] = prepare(pc, e)
	}
	bin := bins[pc.Engine]
	known := loadKnown()

	if *replay != "" {
		// the replay file names its engine
		if b, err := os.ReadFile(*replay); err == nil {
			var hdr struct {
				Engine string `json:"engine"`
			}
			if json.Unmarshal(b, &hdr) == nil && bins[hdr.Engine] != "" {
				bin = bins[hdr.Engine]
			}
		}
		os.Exit(doReplay(bin, prop, *replay, known))
	}

	scratchRoot := ""
	if st, err := os.Stat("/dev/shm"); err == nil && st.IsDir() {
		scratchRoot = "/dev/shm" // tmpfs: the simulated disk's scratch directories live here
	}
	scratch, err := os.MkdirTemp(scratchRoot, "verif-run-*")
	if err != nil {
		die(2, "%v", err)
	}
	defer os.RemoveAll(scratch)

	runs, secs := pc.QuickRuns, pc.QuickSecs
	if *tier == "thorough" {
		runs, secs = pc.ThorRuns, pc.ThorSecs
	}
	if s := os.Getenv("VERIF_RUNS"); s != "" {
		if n, err := strconv.Atoi(s); err == nil {
			runs = n
		}
	}
	if s := os.Getenv("VERIF_SECS"); s != "" {
		if n, err := strconv.Atoi(s); err == nil {
			secs = n
		}
	}
	modes := pc.FaultModes
	if len(modes) == 0 {
		modes = []bool{false}
	}
	var batches []*batch
	runStart := time.Now()
	nb := len(modes) * len(engines)
	for _, e := range engines {
		for _, fm := range modes {
			per := time.Duration(secs) * time.Second / time.Duration(nb)
			b := runBatch(bins[e], prop, *tier, seed, fm, runs/nb, per, scratch)
			b.bin = bins[e]
			batches = append(batches, b)
		}
	}
	runWall := time.Since(runStart).Seconds()

	// ---- aggregate
	type agg struct {
		runs, ops                     int
		faults, probes, checks, extra map[string]int
		states                        map[uint64]bool
		nontrivStates                 map[uint64]bool
		simS                          float64
		samples                       []json.RawMessage
		sigFirst                      map[string]*runResult
		sigBatch                      map[string]*batch
		sigCount                      map[string]int
		sigViol                       map[string]violation
		digests                       map[string]bool
		hangs, errors                 int
		errSamples                    []string
		hangReplays                   []json.RawMessage
	}
	a := &agg{faults: map[string]int{}, probes: map[string]int{}, checks: map[string]int{}, extra: map[string]int{},
		states: map[uint64]bool{}, nontrivStates: map[uint64]bool{}, sigFirst: map[string]*runResult{}, sigBatch: map[string]*batch{},
		sigCount: map[string]int{}, sigViol: map[string]violation{}, digests: map[string]bool{}}
	for _, b := range batches {
		a.hangs += len(b.hangs)
		a.hangReplays = append(a.hangReplays, b.hangs...)
		a.errors += len(b.errors)
		for _, e := range b.errors {
			if len(a.errSamples) < 3 {
				a.errSamples = append(a.errSamples, e)
			}
		}
		for _, r := range b.results {
			a.runs++
			a.ops += r.Ops
			a.simS += r.SimSeconds
			for k, v := range r.Faults {
				a.faults[k] += v
			}
			for k, v := range r.Probes {
				a.probes[k] += v
			}
			for k, v := range r.Checks {
				a.checks[k] += v
			}
			for k, v := range r.Extra {
				a.extra[k] += v
			}
			nf := 0
			for _, v := range r.Faults {
				nf += v
			}
			for _, s := range r.States {
				a.states[s] = true
				if r.Nontrivial || nf > 0 {
					a.nontrivStates[s] = true
				}
			}
			a.digests[r.Digest] = true
			if len(a.samples) < 3 && r.Nontrivial && len(r.Sample) > 0 && len(r.Sample) < 20000 {
				a.samples = append(a.samples, r.Sample)
			}
			for _, v := range r.Violations {
				if v.Property != prop {
					continue
				}
				a.sigCount[v.Signature]++
				if _, ok := a.sigFirst[v.Signature]; !ok {
					a.sigFirst[v.Signature] = r
					a.sigBatch[v.Signature] = b
					a.sigViol[v.Signature] = v
				}
			}
		}
	}
	if len(a.samples) == 0 {
		for _, b := range batches {
			for _, r := range b.results {
				if len(a.samples) < 2 && len(r.Sample) > 0 {
					a.samples = append(a.samples, r.Sample)
				}
			}
		}
	}

	// ---- violations: minimise, re-verify in a fresh process, match known findings
	exit := 0
	nviol := 0
	sigs := make([]string, 0, len(a.sigFirst))
	for s := range a.sigFirst {
		sigs = append(sigs, s)
	}
	sort.Strings(sigs)
	var knownHit []string
	minimised := 0
	for _, sig := range sigs {
		r := a.sigFirst[sig]
		b := a.sigBatch[sig]
		v := a.sigViol[sig]
		if kf := matchKnown(known, prop, sig); kf != nil {
			fmt.Printf("KNOWN-FINDING: property=%s signature=%q (%d runs) %s\n", prop, sig, a.sigCount[sig], kf.What)
			knownHit = append(knownHit, sig)
			continue
		}
		rp, ok := b.replays[r.Index]
		if !ok {
			fmt.Fprintf(os.Stderr, "check: violation %q without replay data\n", sig)
			exit = 2
			continue
		}
		// make sure the replay records this signature
		// raw fields are kept verbatim: run seeds use all 64 bits and must
		// not pass through float64
		var rep map[string]json.RawMessage
		json.Unmarshal(rp, &rep)
		vb, _ := json.Marshal(v)
		rep["violation"] = vb
		rpb, _ := json.MarshalIndent(rep, "", " ")
		dir := filepath.Join(outDir, "replays", prop)
		os.MkdirAll(dir, 0o755)
		path := filepath.Join(dir, fmt.Sprintf("%d-%s.json", r.Seed, shortHash(sig)))
		if err := os.WriteFile(path, rpb, 0o644); err != nil {
			die(2, "%v", err)
		}
		// minimise (same process class, new process)
		if minimised < 4 {
			minimised++
			mcmd := exec.Command(b.bin, "-minimise", path, "-o", path, "-budget", "45s")
			mcmd.Stderr = io.Discard
			mcmd.Stdout = io.Discard
			mcmd.Run()
		}
		// re-verify in a fresh process
		rc, out := replayOnce(b.bin, path)
		switch rc {
		case 3:
			nviol++
			fmt.Printf("VIOLATION property=%s replay=%s\n", prop, path)
			fmt.Printf("  clause=%s signature=%q runs=%d\n  %s\n", v.Clause, sig, a.sigCount[sig], firstLines(v.Detail, 6))
			exit = 1
		default:
			fmt.Fprintf(os.Stderr, "check: candidate violation %q (seed %d) did not reproduce in a fresh process (rc=%d): harness nondeterminism, not reported as a violation\n%s\n", sig, r.Seed, rc, out)
			if exit == 0 {
				exit = 2
			}
		}
	}
	if a.hangs > 0 {
		// a run that never returns is outside what this property states unless
		// the engine says otherwise; it is harness trouble to be looked at
		dir := filepath.Join(outDir, "replays", prop)
		os.MkdirAll(dir, 0o755)
		for i, h := range a.hangReplays {
			if i < 3 {
				os.WriteFile(filepath.Join(dir, fmt.Sprintf("hang-%d.json", i)), h, 0o644)
			}
		}
		fmt.Fprintf(os.Stderr, "check: %d run(s) exceeded the per-run wall-clock limit (replays under %s/hang-*.json)\n", a.hangs, dir)
		if exit == 0 {
			exit = 2
		}
	}
	if a.errors > 0 {
		fmt.Fprintf(os.Stderr, "check: %d harness error(s), e.g.:\n%s\n", a.errors, strings.Join(a.errSamples, "\n---\n"))
		if exit == 0 {
			exit = 2
		}
	}
	if a.runs == 0 {
		die(2, "no run completed")
	}

	// ---- evidence
	wall := time.Since(start).Seconds()
	var real, stub []string
	for _, e := range engines {
		r2, s2 := components(bins[e])
		real = append(real, r2...)
		stub = append(stub, s2...)
	}
	cov := map[string]any{
		"evaluations":               a.runs,
		"worker_crashes_retried":    workerCrashRetries,
		"distinct_nontrivial":       len(a.nontrivStates),
		"rule":                      pc.Rule,
		"samples":                   a.samples,
		"operations":                a.ops,
		"runs_per_hour":             int(float64(a.runs) / runWall * 3600),
		"seeds":                     a.runs,
		"base_seed":                 seed,
		"simulated_seconds":         a.simS,
		"faults_fired":              a.faults,
		"probes":                    a.probes,
		"oracle_clause_evaluations": a.checks,
		"distinct_states":           len(a.states),
		"distinct_run_digests":      len(a.digests),
		"extra":                     a.extra,
		"components_real":           real,
		"components_stub":           stub,
		"fault_batches":             modes,
		"known_findings_hit":        knownHit,
		"hangs":                     a.hangs,
		"harness_errors":            a.errors,
		"workers":                   runtime.NumCPU(),
		"run_phase_wall_s":          runWall,
	}
	ev := map[string]any{
		"property_id": prop,
		"tier":        *tier,
		"seed":        seed,
		"level":       pc.Level,
		"coverage":    cov,
		"assumptions": pc.Assumptions,
		"wall_s":      wall,
		"violations":  nviol,
	}
	eb, _ := json.MarshalIndent(ev, "", " ")
	os.MkdirAll(filepath.Join(outDir, "evidence"), 0o755)
	if err := os.WriteFile(filepath.Join(outDir, "evidence", prop+".json"), eb, 0o644); err != nil {
		die(2, "%v", err)
	}
	fmt.Printf("check %s tier=%s seed=%d: %d runs, %d ops, %d distinct non-trivial states, %d violation signature(s) (%d known), wall %.0fs\n",
		prop, *tier, seed, a.runs, a.ops, len(a.nontrivStates), len(sigs), len(knownHit), wall)
	os.Exit(exit)
}

func shortHash(s string) string {
	h := sha256.Sum256([]byte(s))
	return hex.EncodeToString(h[:4])
}

func firstLines(s string, n int) string {
	l := strings.Split(s, "\n")
	if len(l) > n {
		l = l[:n]
	}
	return strings.Join(l, "\n  ")
}

func replayOnce(bin, path string) (int, string) {
	cmd := exec.Command(bin, "-replay", path)
	cmd.Stderr = io.Discard
	out, err := cmd.Output()
	rc := 0
	if err != nil {
		if ee, ok := err.(*exec.ExitError); ok {
			rc = ee.ExitCode()
		} else {
			rc = -1
		}
	}
	return rc, string(out)
}

func components(bin string) (real, stub []string) {
	cmd := exec.Command(bin, "-components")
	cmd.Stderr = io.Discard
	out, err := cmd.Output()
	if err != nil {
		return nil, nil
	}
	var c struct{ Real, Stub []string }
	json.Unmarshal(out, &c)
	return c.Real, c.Stub
}

func doReplay(bin, prop, path string, known []knownFinding) int {
	rc, out := replayOnce(bin, path)
	fmt.Print(out)
	switch rc {
	case 0:
		return 0
	case 3, 4:
		// which signature?
		for _, l := range strings.Split(out, "\n") {
			if strings.HasPrefix(l, "REPLAY: violation") {
				if i := strings.Index(l, "signature=\""); i >= 0 {
					rest := l[i+11:]
					if j := strings.Index(rest, "\""); j >= 0 {
						if kf := matchKnown(known, prop, rest[:j]); kf != nil {
							fmt.Printf("KNOWN-FINDING: property=%s signature=%q %s\n", prop, rest[:j], kf.What)
							continue
						}
					}
				}
				fmt.Printf("VIOLATION property=%s replay=%s\n", prop, path)
				return 1
			}
		}
		return 0
	default:
		fmt.Fprintf(os.Stderr, "check: replay trouble rc=%d\n", rc)
		return 2
	}
}
