package main

func init() {
	memAssume := []string{
		"libmem is driven through its public API only; node sets have 1-8 nodes, capacities 1-64 MiB units, 2-5 clients, 8-60 operations per run",
		"map iteration order inside libmem is the seeded order chosen by verifrt (every range-over-map is rewritten by verifgen); request age comes from the simulated clock",
		"a clean batch is evidence, not proof: the search samples schedules of client operations, it does not enumerate them",
	}
	reg("C06", &propCfg{Engine: "memsim", Level: "exploration", QuickRuns: 24000, ThorRuns: 1200000, QuickSecs: 60, ThorSecs: 900,
		Rule:        "one case = one seeded run: generated node set (types, capacities, movable/memory-less nodes, line/ring/two-level/random/asymmetric distance matrices, optional custom expansion), 2-5 simulated clients issuing 8-60 GetOffer/Commit(arbitrarily late, possibly twice)/Allocate/Realloc/Release/Reset operations in a seeded interleaving; capacity exhaustion, duplicate ids, unknown nodes and stale offers are the injected failures. A state is the canonical dump of the public observation (AssignedZone of every id ever used, ForeachRequest, ZoneUsage of every zone ever seen) after an operation; distinct_nontrivial counts distinct such states reached by runs with >= 2 state-changing operations or >= 1 failed operation.",
		Assumptions: memAssume})
	reg("C07", &propCfg{Engine: "memsim", Level: "exploration", QuickRuns: 24000, ThorRuns: 1200000, QuickSecs: 60, ThorSecs: 900,
		Rule:        "same runs as C06 with the placement oracles evaluated after every successful Allocate/Realloc/Commit: capacity of every assigned zone and of every union of assigned zones (computed from request sizes and the generated node capacities, independently of the allocator's accounting), strict types, normal memory in every newly assigned zone, superset-only moves, immovable reservations, realloc never removes nodes, returned update map == exactly the set of changed assignments. distinct_nontrivial as for C06.",
		Assumptions: memAssume})
	reg("C10", &propCfg{Engine: "cachesim", Level: "fault_enumeration", QuickRuns: 1600, ThorRuns: 60000, QuickSecs: 75, ThorSecs: 1200,
		Rule: "one case = one sampled history of 6-22 cache operations (InsertPod/InsertContainer with generated labels, annotations incl. affinity/preserve/memory-type/class keys, mounts, devices, pod resources, cgroup resources of every QoS shape; Set* of every resource field, tags, state, resource updates, policy entries of every supported kind incl. a Cacheable, DeletePod/DeleteContainer, Save, SetActivePolicy, clean restart) executed fault-free, then re-executed once per fs-op boundary of the whole history with a crash before it, a crash after it, for writes a crash after 0,1,len/2,len-1 and a random number of bytes, a short write + ENOSPC, and an error return (ENOSPC/EIO/EACCES); then one tampering of the state directory. evaluations = histories; extra.fs-op-boundaries-enumerated = faulty re-executions. A state is the canonical dump of every public getter of every pod, container and policy entry after a reload; distinct_nontrivial counts distinct reloaded dumps from histories with >= 2 saves.",
		Assumptions: []string{
			"durability model is process kill (every completed fs operation is visible afterwards, nothing reordered); power-loss semantics are not modelled because the property is stated for a killed process or a failing write",
			"every os.* call and *os.File method of pkg/resmgr/cache is routed through the shim by verifgen; a new I/O path that bypasses package os (syscall.*) would not be seen",
			"observation excludes ctime, pending marks and the cached PrettyName, which the property does not list",
			"histories avoid InsertContainer for an unknown pod, SetResourceUpdates on containers without Linux resources and GetAffinity on orphaned containers: they panic at this commit and are C14's subject",
		}})
}

func init() {
	e1 := []string{
		"the container runtime is a model: pods/containers with the kubelet's cgroup encodings, lifecycle rules of containerd (a failed CreateContainer is followed by Stop/RemoveContainer events, one live instance per container name per pod) and the told view (initial values + adjustment + every update); NRI transport, ttrpc and real cgroups are not run",
		"machines are generated (1-4 packages x 1-2 dies x 1-2 NUMA nodes x 1-8 cores x 1-2 threads, <= 64 CPUs (32 in the quick tier), isolated CPUs, CPU-less PMEM/HBM nodes, memory-less and movable-only nodes, hybrid cores, optional die/cluster/cache/cpufreq files) and rendered as sysfs; nothing of the host's /sys is read except what pkg/topology derives for non-existent device paths",
		"pod-resources client absent, agent in local-config mode (no API server); cold-start completion events are not delivered (the event loop drops policy events at this commit)",
		"map iteration order in all nri-plugins packages is the seeded order of verifrt; goroutines spawned by instrumented code run to completion at the spawn point",
	}
	rule := func(extra string) string {
		return "one case = one seeded run: generated machine + generated accepted policy configuration + 15-80 operations (RunPodSandbox, CreateContainer, StartContainer, UpdateContainer, StopContainer, RemoveContainer, StopPodSandbox, RemovePodSandbox, reconfigure identical/valid/invalid, clean restart + Synchronize with containers vanishing meanwhile, Synchronize) over pods of every QoS class, namespaces incl. kube-system and reserved ones, and the policy's annotations; oracles run after every request. A state is the hash of the told view of all live containers plus the policy snapshot (grants or balloons); distinct_nontrivial counts distinct states reached by runs with >= 2 successful requests or >= 1 failed/fault request. " + extra
	}
	reg("C01", &propCfg{Engine: "nrisim", Level: "exploration", QuickRuns: 2600, ThorRuns: 120000, QuickSecs: 80, ThorSecs: 1200, Rule: rule("Policy: topology-aware."), Assumptions: e1})
	reg("C02", &propCfg{Engine: "nrisim", Level: "exploration", QuickRuns: 2600, ThorRuns: 120000, QuickSecs: 80, ThorSecs: 1200, Rule: rule("Policy: balloons; histories without UpdateContainer (the property quantifies over create/stop/remove/synchronize/reconfigure)."), Assumptions: e1})
	reg("C03", &propCfg{Engine: "nrisim", Level: "exploration", QuickRuns: 2600, ThorRuns: 120000, QuickSecs: 80, ThorSecs: 1200, Rule: rule("Policy: topology-aware; workload biased to fill pools to the last milli-CPU. The eligibility clause is an input-space rule checked on the containers the histories create, against a reference model written from the documentation."), Assumptions: e1})
	reg("C05", &propCfg{Engine: "nrisim", Level: "exploration", QuickRuns: 2600, ThorRuns: 120000, QuickSecs: 80, ThorSecs: 1200, Rule: rule("Both policies."), Assumptions: e1})
	reg("C12", &propCfg{Engine: "nrisim", Level: "exploration", QuickRuns: 2600, ThorRuns: 120000, QuickSecs: 80, ThorSecs: 1200, Rule: rule("Both policies; workload biased towards preserve annotations, pinCPU/pinMemory off and balloon-type overrides."), Assumptions: e1})
}
