package main

func init() {
	memAssume := []string{
		"libmem is driven through its public API only; node sets have 1-8 nodes, capacities 1-64 MiB units, 2-5 clients, 8-60 operations per run",
		"map iteration order inside libmem is the seeded order chosen by verifrt (every range-over-map is rewritten by verifgen); request age comes from the simulated clock",
		"a clean batch is evidence, not proof: the search samples schedules of client operations, it does not enumerate them",
	}
	reg("C06", &propCfg{Engine: "memsim", Level: "exploration", QuickRuns: 24000, ThorRuns: 1200000, QuickSecs: 60, ThorSecs: 900,
		Rule: "one case = one seeded run: generated node set (types, capacities, movable/memory-less nodes, line/ring/two-level/random/asymmetric distance matrices, optional custom expansion), 2-5 simulated clients issuing 8-60 GetOffer/Commit(arbitrarily late, possibly twice)/Allocate/Realloc/Release/Reset operations in a seeded interleaving; capacity exhaustion, duplicate ids, unknown nodes and stale offers are the injected failures. A state is the canonical dump of the public observation (AssignedZone of every id ever used, ForeachRequest, ZoneUsage of every zone ever seen) after an operation; distinct_nontrivial counts distinct such states reached by runs with >= 2 state-changing operations or >= 1 failed operation.",
		Assumptions: memAssume})
	reg("C07", &propCfg{Engine: "memsim", Level: "exploration", QuickRuns: 24000, ThorRuns: 1200000, QuickSecs: 60, ThorSecs: 900,
		Rule:        "same runs as C06 with the placement oracles evaluated after every successful Allocate/Realloc/Commit: capacity of every assigned zone and of every union of assigned zones (computed from request sizes and the generated node capacities, independently of the allocator's accounting), strict types, normal memory in every newly assigned zone, superset-only moves, immovable reservations, realloc never removes nodes, returned update map == exactly the set of changed assignments. distinct_nontrivial as for C06.",
		Assumptions: memAssume})
}
