package main

func init() {
	memAssume := []string{
		"libmem is driven through its public API only; node sets have 1-8 nodes, capacities 1-64 MiB units, 2-5 clients, 8-60 operations per run",
		"map iteration order inside libmem is the seeded order chosen by verifrt (every range-over-map is rewritten by verifgen); request age comes from the simulated clock",
		"a clean batch is evidence, not proof: the search samples schedules of client operations, it does not enumerate them",
	}
	reg("C06", &propCfg{Engine: "memsim", Level: "exploration", QuickRuns: 24000, ThorRuns: 1200000, QuickSecs: 60, ThorSecs: 900,
		Rule:        "one case = one seeded run: generated node set (types, capacities, movable/memory-less nodes, line/ring/two-level/random/asymmetric distance matrices, optional custom expansion), 2-5 simulated clients issuing 8-60 GetOffer/Commit(arbitrarily late, possibly twice)/Allocate/Realloc/Release/Reset operations in a seeded interleaving; capacity exhaustion, duplicate ids, unknown nodes and stale offers are the injected failures. A state is the canonical dump of the public observation (AssignedZone of every id ever used, ForeachRequest, ZoneUsage of every zone ever seen) after an operation; distinct_nontrivial counts distinct such states reached by runs with >= 2 state-changing operations or >= 1 failed operation.",
		Assumptions: memAssume})
	reg("C07", &propCfg{Engine: "memsim", Level: "exploration", QuickRuns: 24000, ThorRuns: 1200000, QuickSecs: 60, ThorSecs: 900,
		Rule:        "same runs as C06 with the placement oracles evaluated after every successful Allocate/Realloc/Commit: capacity of every assigned zone and of every union of assigned zones (computed from request sizes and the generated node capacities, independently of the allocator's accounting), strict types, normal memory in every newly assigned zone, superset-only moves, immovable reservations, realloc never removes nodes, returned update map == exactly the set of changed assignments. distinct_nontrivial as for C06.",
		Assumptions: memAssume})
	reg("C10", &propCfg{Engine: "cachesim", Level: "fault_enumeration", QuickRuns: 1600, ThorRuns: 60000, QuickSecs: 75, ThorSecs: 1200,
		Rule: "one case = one sampled history of 6-22 cache operations (InsertPod/InsertContainer with generated labels, annotations incl. affinity/preserve/memory-type/class keys, mounts, devices, pod resources, cgroup resources of every QoS shape; Set* of every resource field, tags, state, resource updates, policy entries of every supported kind incl. a Cacheable, DeletePod/DeleteContainer, Save, SetActivePolicy, clean restart) executed fault-free, then re-executed once per fs-op boundary of the whole history with a crash before it, a crash after it, for writes a crash after 0,1,len/2,len-1 and a random number of bytes, a short write + ENOSPC, and an error return (ENOSPC/EIO/EACCES); then one tampering of the state directory. evaluations = histories; extra.fs-op-boundaries-enumerated = faulty re-executions. A state is the canonical dump of every public getter of every pod, container and policy entry after a reload; distinct_nontrivial counts distinct reloaded dumps from histories with >= 2 saves.",
		Assumptions: []string{
			"durability model is process kill (every completed fs operation is visible afterwards, nothing reordered); power-loss semantics are not modelled because the property is stated for a killed process or a failing write",
			"every os.* call and *os.File method of pkg/resmgr/cache is routed through the shim by verifgen; a new I/O path that bypasses package os (syscall.*) would not be seen",
			"observation excludes ctime, pending marks and the cached PrettyName, which the property does not list",
			"histories avoid InsertContainer for an unknown pod, SetResourceUpdates on containers without Linux resources and GetAffinity on orphaned containers: they panic at this commit and are C14's subject",
		}})
}
