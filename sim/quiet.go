package sim

import (
	"bytes"
	"flag"
	"os"
	"sync"

	"k8s.io/klog/v2"
)

// logTap discards what the code under test logs, but remembers whether a few
// marker messages were seen since the last reset. Markers are only used to
// classify the *cause* of a violation in its signature (e.g. "the resource
// manager logged that reverting the configuration failed too"), never to
// decide whether something is a violation.
type logTap struct {
	mu      sync.Mutex
	markers [][]byte
	seen    map[string]bool
	lines   map[string][]string // the matching lines (at most 64 per marker)
	echo    bool
}

var tap = &logTap{seen: map[string]bool{}, lines: map[string][]string{}}

func (t *logTap) Write(p []byte) (int, error) {
	t.mu.Lock()
	for _, m := range t.markers {
		if bytes.Contains(p, m) {
			t.seen[string(m)] = true
			if len(t.lines[string(m)]) < 64 {
				t.lines[string(m)] = append(t.lines[string(m)], string(p))
			}
		}
	}
	echo := t.echo
	t.mu.Unlock()
	if echo {
		os.Stderr.Write(p)
	}
	return len(p), nil
}

// LogMarkers sets the marker substrings to watch for.
func LogMarkers(ms ...string) {
	tap.mu.Lock()
	tap.markers = nil
	for _, m := range ms {
		tap.markers = append(tap.markers, []byte(m))
	}
	tap.mu.Unlock()
}

// LogReset forgets the markers seen so far.
func LogReset() {
	tap.mu.Lock()
	tap.seen = map[string]bool{}
	tap.lines = map[string][]string{}
	tap.mu.Unlock()
}

// LogLines returns the lines logged with the marker since the last reset.
func LogLines(m string) []string {
	tap.mu.Lock()
	defer tap.mu.Unlock()
	return append([]string(nil), tap.lines[m]...)
}

// LogSeen reports whether the marker was logged since the last reset.
func LogSeen(m string) bool {
	tap.mu.Lock()
	defer tap.mu.Unlock()
	return tap.seen[m]
}

// QuietLogs routes everything the code under test logs into the tap
// (echoed to stderr when VERIF_LOGS is set).
func QuietLogs() {
	fs := flag.NewFlagSet("klog", flag.ContinueOnError)
	klog.InitFlags(fs)
	fs.Set("logtostderr", "false")
	fs.Set("alsologtostderr", "false")
	fs.Set("stderrthreshold", "FATAL")
	tap.echo = os.Getenv("VERIF_LOGS") != ""
	klog.SetOutput(tap)
}
