package sim

import (
	"flag"
	"io"

	"k8s.io/klog/v2"
)

// QuietLogs discards everything the code under test logs (logging is never
// read by an oracle) unless VERIF_LOGS is set.
func QuietLogs() {
	fs := flag.NewFlagSet("klog", flag.ContinueOnError)
	klog.InitFlags(fs)
	fs.Set("logtostderr", "false")
	fs.Set("alsologtostderr", "false")
	fs.Set("stderrthreshold", "FATAL")
	klog.SetOutput(io.Discard)
}
