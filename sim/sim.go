// Package sim holds what all engines share: run results, violations, replay
// files, the worker command line and delta-debugging minimisation.
package sim

import (
	"bufio"
	"encoding/json"
	"flag"
	"fmt"
	"os"
	"runtime/debug"
	"runtime/pprof"
	"sort"
	"strings"
	"sync"
	"time"

	"verifh/verifrt"
)

// Violation is one oracle clause failing at one step of one run.
type Violation struct {
	Property  string `json:"property"`
	Clause    string `json:"clause"`    // oracle clause, e.g. "stale-offer-accepted"
	Signature string `json:"signature"` // clause + the specific site/shape; used to match known findings and to keep minimisation on the same failure
	Detail    string `json:"detail"`
	Step      int    `json:"step"`
}

// RunResult is what one simulated run reports.
type RunResult struct {
	Seed       uint64         `json:"seed"`
	Index      int            `json:"index"`
	Ops        int            `json:"ops"`
	Faults     map[string]int `json:"faults,omitempty"`
	Probes     map[string]int `json:"probes,omitempty"`
	Checks     map[string]int `json:"checks,omitempty"`
	States     []uint64       `json:"states,omitempty"`
	Nontrivial bool           `json:"nontrivial"`
	SimSeconds float64        `json:"sim_s"`
	Digest     string         `json:"digest"`
	Violations []Violation    `json:"violations,omitempty"`
	Sample     any            `json:"sample,omitempty"`
	Extra      map[string]int `json:"extra,omitempty"`

	// counters are also bumped from goroutines of the code under test (the
	// simulated API server's RoundTrip runs on the agent's watch goroutines)
	mu sync.Mutex
}

func NewResult(seed uint64, idx int) *RunResult {
	return &RunResult{Seed: seed, Index: idx, Faults: map[string]int{}, Probes: map[string]int{}, Checks: map[string]int{}, Extra: map[string]int{}}
}

func (r *RunResult) Fault(kind string)           { r.mu.Lock(); r.Faults[kind]++; r.mu.Unlock() }
func (r *RunResult) Probe(name string)           { r.mu.Lock(); r.Probes[name]++; r.mu.Unlock() }
func (r *RunResult) Check(name string)           { r.mu.Lock(); r.Checks[name]++; r.mu.Unlock() }
func (r *RunResult) AddExtra(name string, n int) { r.mu.Lock(); r.Extra[name] += n; r.mu.Unlock() }
func (r *RunResult) State(fp uint64) {
	r.mu.Lock()
	defer r.mu.Unlock()
	if len(r.States) < 256 {
		r.States = append(r.States, fp)
	}
}

// Violate records a violation (at most 8 per run, distinct signatures).
func (r *RunResult) Violate(prop, clause, sig string, step int, format string, a ...any) {
	r.mu.Lock()
	defer r.mu.Unlock()
	for _, v := range r.Violations {
		if v.Signature == sig {
			return
		}
	}
	if len(r.Violations) >= 8 {
		return
	}
	r.Violations = append(r.Violations, Violation{Property: prop, Clause: clause, Signature: sig, Detail: fmt.Sprintf(format, a...), Step: step})
}

// Plan is an engine-specific, JSON-serialisable description of one run:
// world parameters, operation list with per-operation fault decisions.
type Plan interface {
	NumOps() int
	// Keep returns a copy with only the operations whose index is marked.
	Keep(keep []bool) Plan
	// Simplify returns simpler variants of the plan (smaller arguments), tried
	// in order after op removal.
	Simplify() []Plan
}

// Engine is one simulated world.
type Engine interface {
	Name() string
	// Properties served.
	Properties() []string
	// Generate derives a plan from the run seed.
	Generate(prop, tier string, seed uint64, faults bool) Plan
	// Execute runs the plan against the real code and evaluates the oracles
	// of prop. seed keys the map-order and scheduler streams.
	Execute(prop string, plan Plan, seed uint64, res *RunResult)
	// Decode parses a plan from a replay file.
	Decode(raw json.RawMessage) (Plan, error)
	// Components reports which parts ran real code and which a stub.
	Components() (real, stub []string)
}

// Replay is the replay-file format.
type Replay struct {
	Engine    string          `json:"engine"`
	Property  string          `json:"property"`
	Seed      uint64          `json:"seed"`
	Faults    bool            `json:"faults"`
	Tier      string          `json:"tier"`
	Plan      json.RawMessage `json:"plan"`
	Violation *Violation      `json:"violation,omitempty"`
	Minimised bool            `json:"minimised"`
	OrigOps   int             `json:"orig_ops,omitempty"`
	Note      string          `json:"note,omitempty"`
}

// RunSeed derives the seed of run i of a batch.
func RunSeed(base uint64, i int) uint64 { return verifrt.MixN(verifrt.Mix(base, "run"), uint64(i)) }

// RunTimeout bounds the wall-clock time of one run. A run that exceeds it is a
// hang (an unbounded loop or a deadlock in the code under test, or in the
// harness): the worker records it and exits, since a goroutine cannot be
// killed; the driver restarts the worker after that run.
var RunTimeout = 90 * time.Second

var errHang = fmt.Errorf("run exceeded the per-run wall-clock limit")

// execSafe runs Execute converting an escaped panic into a harness error.
func execSafe(e Engine, prop string, plan Plan, seed uint64, idx int) (res *RunResult, herr error) {
	type out struct {
		res *RunResult
		err error
	}
	ch := make(chan out, 1)
	go func() {
		r := NewResult(seed, idx)
		var err error
		defer func() {
			if p := recover(); p != nil {
				err = fmt.Errorf("harness panic: %v\n%s", p, debug.Stack())
			}
			ch <- out{r, err}
		}()
		e.Execute(prop, plan, seed, r)
	}()
	select {
	case o := <-ch:
		return o.res, o.err
	case <-time.After(RunTimeout):
		return nil, errHang
	}
}

func hasSig(res *RunResult, sig string) *Violation {
	for i := range res.Violations {
		if res.Violations[i].Signature == sig {
			return &res.Violations[i]
		}
	}
	return nil
}

// Minimise shrinks plan while the violation with the same signature persists.
func Minimise(e Engine, prop string, plan Plan, seed uint64, sig string, budget time.Duration) (Plan, int) {
	deadline := time.Now().Add(budget)
	tries := 0
	fails := func(p Plan) bool {
		tries++
		res, err := execSafe(e, prop, p, seed, 0)
		return err == nil && hasSig(res, sig) != nil
	}
	cur := plan
	// ddmin over the op list
	n := 2
	for cur.NumOps() >= 2 && time.Now().Before(deadline) {
		ops := cur.NumOps()
		if n > ops {
			n = ops
		}
		chunk := (ops + n - 1) / n
		reduced := false
		// try removing each chunk (complement testing)
		for start := 0; start < ops && time.Now().Before(deadline); start += chunk {
			keep := make([]bool, ops)
			for i := range keep {
				keep[i] = i < start || i >= start+chunk
			}
			cand := cur.Keep(keep)
			if cand.NumOps() < ops && fails(cand) {
				cur = cand
				if n > 2 {
					n--
				}
				reduced = true
				break
			}
		}
		if !reduced {
			if n >= ops {
				break
			}
			n *= 2
		}
	}
	// argument simplification
	for progress := true; progress && time.Now().Before(deadline); {
		progress = false
		for _, cand := range cur.Simplify() {
			if !time.Now().Before(deadline) {
				break
			}
			if fails(cand) {
				cur = cand
				progress = true
				break
			}
		}
	}
	return cur, tries
}

// ---------------------------------------------------------------------------
// worker command line, shared by all engine binaries

type workerOut struct {
	Result *RunResult      `json:"result,omitempty"`
	Replay *Replay         `json:"replay,omitempty"`
	Error  string          `json:"error,omitempty"`
	Hang   bool            `json:"hang,omitempty"`
	Index  int             `json:"index"`
	Meta   json.RawMessage `json:"meta,omitempty"`
}

// Main is the entry point of every engine binary.
//
//	engine -prop C06 -tier quick -seed S -from A -to B -out file.jsonl [-faults]
//	engine -replay file.json            (exit 0 held, 3 violated, 2 harness trouble)
//	engine -minimise file.json -o min.json
//
// flag variables (package level so that a test binary can define them in
// TestMain and run the engine from inside a test function)
var (
	prop     = flag.String("prop", "", "property id")
	tier     = flag.String("tier", "quick", "tier")
	seed     = flag.Uint64("seed", 1, "base seed")
	from     = flag.Int("from", 0, "first run index")
	to       = flag.Int("to", 1, "one past the last run index")
	out      = flag.String("out", "", "output jsonl")
	faults   = flag.Bool("faults", false, "fault-injecting configuration")
	replay   = flag.String("replay", "", "replay file")
	minimise = flag.String("minimise", "", "replay file to minimise")
	minOut   = flag.String("o", "", "output of -minimise")
	budget   = flag.Duration("budget", 60*time.Second, "minimisation budget")
	deadline = flag.Duration("deadline", 0, "stop starting new runs after this wall time")
	digests  = flag.Bool("digests", false, "print seed and digest per run (determinism self-test)")
	stride   = flag.Int("stride", 1, "run indices from,from+stride,...")
	comps    = flag.Bool("components", false, "print which components run real code and which a stub")
	dump     = flag.Bool("dump", false, "print the generated plan of run -from as a replay file and exit")
)

// Main is the entry point of every engine binary.
func Main(e Engine) {
	flag.Parse()
	RunParsed(e)
}

// RunParsed runs the engine after the flags have been parsed.
func RunParsed(e Engine) {
	QuietLogs()
	switch {
	case *comps:
		real, stub := e.Components()
		b, _ := json.Marshal(map[string][]string{"Real": real, "Stub": stub})
		fmt.Println(string(b))
		return
	case *replay != "":
		os.Exit(doReplay(e, *replay))
	case *minimise != "":
		os.Exit(doMinimise(e, *minimise, *minOut, *budget))
	}
	if *prop == "" {
		fmt.Fprintln(os.Stderr, "missing -prop")
		os.Exit(2)
	}
	if *dump {
		rs := RunSeed(*seed, *from)
		raw, _ := json.Marshal(e.Generate(*prop, *tier, rs, *faults))
		b, _ := json.MarshalIndent(&Replay{Engine: e.Name(), Property: *prop, Seed: rs, Faults: *faults, Tier: *tier, Plan: raw}, "", " ")
		fmt.Println(string(b))
		return
	}
	var w *bufio.Writer
	if *out != "" {
		f, err := os.Create(*out)
		if err != nil {
			fmt.Fprintln(os.Stderr, err)
			os.Exit(2)
		}
		defer f.Close()
		w = bufio.NewWriter(f)
		defer w.Flush()
	}
	start := time.Now()
	for i := *from; i < *to; i += *stride {
		if *deadline > 0 && time.Since(start) > *deadline {
			break
		}
		rs := RunSeed(*seed, i)
		plan := e.Generate(*prop, *tier, rs, *faults)
		res, err := execSafe(e, *prop, plan, rs, i)
		o := workerOut{Result: res, Index: i}
		if err != nil {
			o.Error = err.Error()
			o.Result = nil
			raw, _ := json.Marshal(plan)
			o.Replay = &Replay{Engine: e.Name(), Property: *prop, Seed: rs, Faults: *faults, Tier: *tier, Plan: raw, Note: fmt.Sprintf("index=%d", i)}
			if err == errHang {
				o.Hang = true
				if w != nil {
					b, _ := json.Marshal(o)
					w.Write(b)
					w.WriteByte('\n')
					w.Flush()
				}
				fmt.Fprintf(os.Stderr, "worker: run %d (seed %d) hung\n", i, rs)
				// what everybody was doing, for the harness author
				if *out != "" {
					if sf, err := os.Create(*out + ".stacks"); err == nil {
						pprof.Lookup("goroutine").WriteTo(sf, 2)
						sf.Close()
					}
				}
				os.Exit(5)
			}
		} else if len(res.Violations) > 0 {
			raw, _ := json.Marshal(plan)
			v := res.Violations[0]
			o.Replay = &Replay{Engine: e.Name(), Property: *prop, Seed: rs, Faults: *faults, Tier: *tier, Plan: raw, Violation: &v, OrigOps: plan.NumOps()}
		}
		if *digests && res != nil {
			fmt.Printf("%d %016x %s %d\n", i, rs, res.Digest, len(res.Violations))
		}
		if w != nil {
			b, _ := json.Marshal(o)
			w.Write(b)
			w.WriteByte('\n')
			w.Flush()
		}
	}
}

func loadReplay(path string) (*Replay, error) {
	b, err := os.ReadFile(path)
	if err != nil {
		return nil, err
	}
	var r Replay
	if err := json.Unmarshal(b, &r); err != nil {
		return nil, err
	}
	return &r, nil
}

func doReplay(e Engine, path string) int {
	r, err := loadReplay(path)
	if err != nil {
		fmt.Fprintln(os.Stderr, "replay:", err)
		return 2
	}
	plan, err := e.Decode(r.Plan)
	if err != nil {
		fmt.Fprintln(os.Stderr, "replay: decode:", err)
		return 2
	}
	res, herr := execSafe(e, r.Property, plan, r.Seed, 0)
	if herr == errHang {
		fmt.Println("REPLAY: hang")
		return 5
	}
	if herr != nil {
		fmt.Fprintln(os.Stderr, "replay:", herr)
		return 2
	}
	b, _ := json.Marshal(res)
	fmt.Println(string(b))
	if len(res.Violations) == 0 {
		fmt.Println("REPLAY: no violation")
		return 0
	}
	for _, v := range res.Violations {
		fmt.Printf("REPLAY: violation property=%s clause=%s signature=%q step=%d: %s\n", v.Property, v.Clause, v.Signature, v.Step, v.Detail)
	}
	if r.Violation != nil && hasSig(res, r.Violation.Signature) == nil {
		fmt.Println("REPLAY: recorded signature not reproduced")
		return 4
	}
	return 3
}

func doMinimise(e Engine, path, out string, budget time.Duration) int {
	r, err := loadReplay(path)
	if err != nil {
		fmt.Fprintln(os.Stderr, "minimise:", err)
		return 2
	}
	plan, err := e.Decode(r.Plan)
	if err != nil {
		fmt.Fprintln(os.Stderr, "minimise: decode:", err)
		return 2
	}
	// the original must fail here too
	res, herr := execSafe(e, r.Property, plan, r.Seed, 0)
	if herr == nil && r.Violation == nil && len(res.Violations) > 0 {
		r.Violation = &res.Violations[0]
	}
	if herr != nil || r.Violation == nil || hasSig(res, r.Violation.Signature) == nil {
		fmt.Fprintln(os.Stderr, "minimise: original does not reproduce in this process")
		return 4
	}
	min, tries := Minimise(e, r.Property, plan, r.Seed, r.Violation.Signature, budget)
	res, _ = execSafe(e, r.Property, min, r.Seed, 0)
	v := hasSig(res, r.Violation.Signature)
	if v == nil {
		fmt.Fprintln(os.Stderr, "minimise: minimised plan lost the violation")
		return 4
	}
	raw, _ := json.MarshalIndent(min, "", " ")
	nr := *r
	nr.Plan = raw
	nr.Violation = v
	nr.Minimised = true
	nr.OrigOps = plan.NumOps()
	nr.Note = fmt.Sprintf("minimised from %d to %d operations in %d executions", plan.NumOps(), min.NumOps(), tries)
	b, _ := json.MarshalIndent(nr, "", " ")
	if out == "" {
		out = path
	}
	if err := os.WriteFile(out, b, 0o644); err != nil {
		fmt.Fprintln(os.Stderr, err)
		return 2
	}
	return 0
}

// Hash64 is a small FNV-1a helper for state fingerprints.
func Hash64(parts ...string) uint64 {
	h := uint64(0xcbf29ce484222325)
	for _, p := range parts {
		for i := 0; i < len(p); i++ {
			h ^= uint64(p[i])
			h *= 0x100000001b3
		}
		h ^= 0xff
		h *= 0x100000001b3
	}
	return h
}

// SortedKeys returns the sorted keys of a string-keyed map.
func SortedKeys[V any](m map[string]V) []string {
	k := make([]string, 0, len(m))
	for s := range m {
		k = append(k, s)
	}
	sort.Strings(k)
	return k
}

// Join is strings.Join for fmt.Stringers-free call sites.
func Join(s []string) string { return strings.Join(s, ",") }
